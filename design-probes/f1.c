/* F1: a whitelist "signature" for an EMPTY key list, computed from public data only */
#include <stdio.h>
#include <string.h>
#include <secp256k1.h>
#include <secp256k1_whitelist.h>
/* tiny standalone SHA-256 so that the forger uses nothing but public data */
#include <stdint.h>
static uint32_t R(uint32_t x,int n){return (x>>n)|(x<<(32-n));}
static void sha256(const unsigned char*m,size_t len,unsigned char*out){
 static const uint32_t K[64]={0x428a2f98,0x71374491,0xb5c0fbcf,0xe9b5dba5,0x3956c25b,0x59f111f1,0x923f82a4,0xab1c5ed5,0xd807aa98,0x12835b01,0x243185be,0x550c7dc3,0x72be5d74,0x80deb1fe,0x9bdc06a7,0xc19bf174,0xe49b69c1,0xefbe4786,0x0fc19dc6,0x240ca1cc,0x2de92c6f,0x4a7484aa,0x5cb0a9dc,0x76f988da,0x983e5152,0xa831c66d,0xb00327c8,0xbf597fc7,0xc6e00bf3,0xd5a79147,0x06ca6351,0x14292967,0x27b70a85,0x2e1b2138,0x4d2c6dfc,0x53380d13,0x650a7354,0x766a0abb,0x81c2c92e,0x92722c85,0xa2bfe8a1,0xa81a664b,0xc24b8b70,0xc76c51a3,0xd192e819,0xd6990624,0xf40e3585,0x106aa070,0x19a4c116,0x1e376c08,0x2748774c,0x34b0bcb5,0x391c0cb3,0x4ed8aa4a,0x5b9cca4f,0x682e6ff3,0x748f82ee,0x78a5636f,0x84c87814,0x8cc70208,0x90befffa,0xa4506ceb,0xbef9a3f7,0xc67178f2};
 uint32_t H[8]={0x6a09e667,0xbb67ae85,0x3c6ef372,0xa54ff53a,0x510e527f,0x9b05688c,0x1f83d9ab,0x5be0cd19};
 unsigned char buf[256]; size_t n=len; memcpy(buf,m,len); buf[n++]=0x80; while(n%64!=56) buf[n++]=0; uint64_t bits=(uint64_t)len*8; for(int i=7;i>=0;i--) buf[n++]=bits>>(8*i);
 for(size_t o=0;o<n;o+=64){uint32_t W[64],a,b,c,d,e,f,g,h; for(int t=0;t<16;t++)W[t]=(buf[o+4*t]<<24)|(buf[o+4*t+1]<<16)|(buf[o+4*t+2]<<8)|buf[o+4*t+3];
  for(int t=16;t<64;t++)W[t]=(R(W[t-2],17)^R(W[t-2],19)^(W[t-2]>>10))+W[t-7]+(R(W[t-15],7)^R(W[t-15],18)^(W[t-15]>>3))+W[t-16];
  a=H[0];b=H[1];c=H[2];d=H[3];e=H[4];f=H[5];g=H[6];h=H[7];
  for(int t=0;t<64;t++){uint32_t T1=h+(R(e,6)^R(e,11)^R(e,25))+((e&f)^(~e&g))+K[t]+W[t],T2=(R(a,2)^R(a,13)^R(a,22))+((a&b)^(a&c)^(b&c));h=g;g=f;f=e;e=d+T1;d=c;c=b;b=a;a=T1+T2;}
  H[0]+=a;H[1]+=b;H[2]+=c;H[3]+=d;H[4]+=e;H[5]+=f;H[6]+=g;H[7]+=h;}
 for(int i=0;i<8;i++){out[4*i]=H[i]>>24;out[4*i+1]=H[i]>>16;out[4*i+2]=H[i]>>8;out[4*i+3]=H[i];}
}
int main(void){
 secp256k1_context*ctx=secp256k1_context_create(SECP256K1_CONTEXT_NONE);
 unsigned char sk[32]; memset(sk,0x42,32);                 /* only used to obtain SOME valid whitelisted pubkey */
 secp256k1_pubkey sub; secp256k1_ec_pubkey_create(ctx,&sub,sk);
 unsigned char c[33]; size_t cl=33; secp256k1_ec_pubkey_serialize(ctx,c,&cl,&sub,SECP256K1_EC_COMPRESSED);
 unsigned char msg32[32], e0[32], ser[33];
 sha256(c,33,msg32);            /* message hash over the (empty) key list */
 sha256(msg32,32,e0);           /* e0 = H(m) when no ring member contributes */
 ser[0]=0; memcpy(ser+1,e0,32);
 secp256k1_whitelist_signature sig;
 int p=secp256k1_whitelist_signature_parse(ctx,&sig,ser,33);
 secp256k1_pubkey dummy[1];
 int v=secp256k1_whitelist_verify(ctx,&sig,dummy,dummy,0,&sub);
 printf("parse=%d verify(empty key list)=%d\n",p,v);
 return !(p==1&&v==1);
}
