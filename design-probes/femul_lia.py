import sys, time
from z3 import *
# integer model of secp256k1_fe_mul_inner (5x52), opaque partial products
M = (1<<52)-1; R = 0x1000003D10
p = 2**256 - 0x1000003D1
s = Solver()
P = [[Int(f"P{i}{j}") for j in range(5)] for i in range(5)]
def bits(i): return 52 if i==4 else 56
for i in range(5):
    for j in range(5):
        s.add(P[i][j] >= 0, P[i][j] < 2**(bits(i)+bits(j)))
cnt=[0]
def split(x, k):
    """return (x mod 2^k, x div 2^k) via fresh vars"""
    cnt[0]+=1
    lo = Int(f"lo{cnt[0]}"); hi = Int(f"hi{cnt[0]}")
    s.add(x == hi*(2**k) + lo, lo >= 0, lo < 2**k, hi >= 0)
    return lo, hi
def m(i,j): return P[i][j]
d = m(0,3)+m(1,2)+m(2,1)+m(3,0)
c = m(4,4)
clo, chi = split(c, 64)
d = d + R*clo; c = chi
t3, d = split(d, 52)
d = d + m(0,4)+m(1,3)+m(2,2)+m(3,1)+m(4,0)
d = d + (R<<12)*c
t4, d = split(d, 52)
t4lo, tx = split(t4, 48); t4 = t4lo
c = m(0,0)
d = d + m(1,4)+m(2,3)+m(3,2)+m(4,1)
u0, d = split(d, 52)
u0 = u0*16 + tx
c = c + u0*(R>>4)
r0, c = split(c, 52)
c = c + m(0,1)+m(1,0)
d = d + m(2,4)+m(3,3)+m(4,2)
dlo, d = split(d, 52)
c = c + dlo*R
r1, c = split(c, 52)
c = c + m(0,2)+m(1,1)+m(2,0)
d = d + m(3,4)+m(4,3)
dlo, dhi = split(d, 64)
c = c + R*dlo; d = dhi
r2, c = split(c, 52)
c = c + (R<<12)*d + t3
r3, c = split(c, 52)
r4 = c + t4
V = r0 + r1*2**52 + r2*2**104 + r3*2**156 + r4*2**208
T = sum(P[i][j]*2**(52*(i+j)) for i in range(5) for j in range(5))
k = Int('k'); rem = Int('rem')
s.add(V - T == k*p + rem, rem > 0, rem < p)
t=time.time(); print(s.check(), time.time()-t)
