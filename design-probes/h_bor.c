#include "cfg.h"
#include "secp256k1.c"
size_t nondet_size_t(void); unsigned char nondet_uchar(void); uint32_t nondet_u32(void);
secp256k1_gej nondet_gej(void); secp256k1_ge nondet_ge(void);
void w_ecmult(secp256k1_gej *r, const secp256k1_gej *a, const secp256k1_scalar *na, const secp256k1_scalar *ng) { (void)a; (void)na; (void)ng; *r = nondet_gej(); r->infinity &= 1; }
void w_ge_set_gej_var(secp256k1_ge *r, secp256k1_gej *a) { *r = nondet_ge(); r->infinity = a->infinity; }
void w_serialize33(secp256k1_ge *e, unsigned char *pub33) { (void)e; __CPROVER_assert(__CPROVER_w_ok(pub33, 33), "serialize33 writes 33 bytes"); __CPROVER_havoc_slice(pub33, 33); }
void w_sha_write(const secp256k1_hash_ctx *hc, secp256k1_sha256 *h, const unsigned char *data, size_t len) { (void)hc; __CPROVER_assert(len == 0 || __CPROVER_r_ok(data, len), "sha256_write reads inside its input"); h->s[0] = nondet_u32(); h->bytes += len; }
void w_sha_finalize(const secp256k1_hash_ctx *hc, secp256k1_sha256 *h, unsigned char *out32) { (void)hc; (void)h; __CPROVER_assert(__CPROVER_w_ok(out32, 32), "sha256_finalize writes 32 bytes"); __CPROVER_havoc_slice(out32, 32); }
void harness_borromean(void) {
    secp256k1_hash_ctx hc; unsigned char e0[32], m[32]; secp256k1_scalar s[128], ev[128]; secp256k1_gej pubs[128]; size_t rsizes[32]; size_t nrings = nondet_size_t(), i, tot = 0; int want_ev = nondet_uchar() & 1, ret;
#ifdef MANT
    nrings = (MANT + 1) / 2; for (i = 0; i < nrings; i++) { rsizes[i] = (i + 1 < nrings || !(MANT & 1)) ? 4 : 2; tot += rsizes[i]; }
#else
    __CPROVER_assume(nrings >= 1 && nrings <= 32);
    for (i = 0; i < 32; i++) if (i < nrings) { __CPROVER_assume(rsizes[i] == 1 || rsizes[i] == 2 || rsizes[i] == 4); tot += rsizes[i]; }
    __CPROVER_assume(tot <= 128);
#endif
    ret = secp256k1_borromean_verify(&hc, want_ev ? ev : NULL, e0, s, pubs, rsizes, nrings, m, 32);
    __CPROVER_assert(ret == 0 || ret == 1, "boolean");
#ifdef WITNESS
    __CPROVER_assert(!(ret == 1), "witness: accept reachable");
#endif
}
