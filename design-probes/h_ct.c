#include "cfg.h"
#include "secp256k1.c"
uint64_t nondet_u64(void); int nondet_int(void);
#define TR 64
static const char *trace[2][TR]; static int tn[2]; static int run;
void verif_branch(const char *id) { if (tn[run] < TR) trace[run][tn[run]] = id; tn[run]++; }
#ifdef MUT
static int mut_cond_negate(secp256k1_scalar *r, int flag) { if (flag) { secp256k1_scalar_negate(r, r); return -1; } return 1; }
#define TARGET mut_cond_negate
#else
#define TARGET secp256k1_scalar_cond_negate
#endif
void harness_ct(void) {
    secp256k1_scalar a[2]; int flag[2], i, j;
    for (j = 0; j < 2; j++) { for (i = 0; i < 4; i++) a[j].d[i] = nondet_u64(); flag[j] = nondet_int() & 1; }
    tn[0] = tn[1] = 0;
    run = 0; TARGET(&a[0], flag[0]);
    run = 1; TARGET(&a[1], flag[1]);
    __CPROVER_assert(tn[0] == tn[1], "same number of branch events");
    __CPROVER_assert(tn[0] <= TR, "trace buffer large enough");
    for (i = 0; i < TR; i++) if (i < tn[0]) __CPROVER_assert(trace[0][i] == trace[1][i], "same branch sequence");
}
