#include "cfg.h"
/* take over checkmem.h: declassification becomes an observable event */
#define SECP256K1_CHECKMEM_H
#define SECP256K1_CHECKMEM_ENABLED 1
void verif_declassify(const void *p, unsigned long len);
#define SECP256K1_CHECKMEM_UNDEFINE(p, len) do { (void)(p); (void)(len); } while(0)
#define SECP256K1_CHECKMEM_DEFINE(p, len) verif_declassify((p), (len))
#define SECP256K1_CHECKMEM_MSAN_DEFINE(p, len) do { (void)(p); (void)(len); } while(0)
#define SECP256K1_CHECKMEM_CHECK(p, len) do { (void)(p); (void)(len); } while(0)
#define SECP256K1_CHECKMEM_RUNNING() (1)
#include "secp256k1.c"
uint64_t nondet_u64(void); int nondet_int(void); unsigned char nondet_uchar(void); uint32_t nondet_u32(void);
#define TR 8192
typedef unsigned __CPROVER_bitvector[TR] trace_t;
static trace_t trace[2]; static int tn[2]; static int run; static int verif_on;
void verif_branch(const char *id) { if (!verif_on) return; trace[run] = (trace[run] << 1) | (trace_t)(id[0] == 't'); tn[run]++; }
#define DL 256
static unsigned char dlog[DL]; static int dn[2];
void verif_declassify(const void *p, unsigned long len) {
    const unsigned char *q = p; int save = verif_on; verif_on = 0;
    for (unsigned long i = 0; i < len; i++) {
        if (run == 0) { if (dn[0] < DL) dlog[dn[0]] = q[i]; dn[0]++; }
        else { if (dn[1] < DL) __CPROVER_assume(q[i] == dlog[dn[1]]); dn[1]++; }
    }
    verif_on = save;
}
/* constant-time summaries of already analysed callees: arbitrary, run-specific results, no events */
void ct_ecmult_gen(const secp256k1_ecmult_gen_context *c, secp256k1_gej *r, const secp256k1_scalar *a) { (void)c; (void)a; for (int i = 0; i < 5; i++) { r->x.n[i] = nondet_u64() & 0xFFFFFFFFFFFFFULL; r->y.n[i] = nondet_u64() & 0xFFFFFFFFFFFFFULL; r->z.n[i] = nondet_u64() & 0xFFFFFFFFFFFFFULL; } r->infinity = 0; }
void ct_ge_set_gej(secp256k1_ge *r, secp256k1_gej *a) { (void)a; for (int i = 0; i < 5; i++) { r->x.n[i] = nondet_u64() & 0xFFFFFFFFFFFFFULL; r->y.n[i] = nondet_u64() & 0xFFFFFFFFFFFFFULL; } r->infinity = 0; }
void ct_scalar_mul(secp256k1_scalar *r, const secp256k1_scalar *a, const secp256k1_scalar *b) { (void)a; (void)b; for (int i = 0; i < 4; i++) r->d[i] = nondet_u64(); r->d[3] &= 0x7FFFFFFFFFFFFFFFULL; }
void ct_scalar_inverse(secp256k1_scalar *r, const secp256k1_scalar *a) { (void)a; for (int i = 0; i < 4; i++) r->d[i] = nondet_u64(); r->d[3] &= 0x7FFFFFFFFFFFFFFFULL; }
void ct_sha_transform(uint32_t *s, const unsigned char *b, size_t n) { (void)b; (void)n; for (int i = 0; i < 8; i++) s[i] = nondet_u32(); }
void harness_ct_sign(void) {
    secp256k1_context ctx; unsigned char msg[32]; unsigned char key[2][32]; secp256k1_ecdsa_signature sig[2]; int ret[2], i, j;
    memset(&ctx, 0, sizeof(ctx)); ctx.declassify = 1; ctx.ecmult_gen_ctx.built = 1;
    ctx.hash_ctx.fn_sha256_compression = ct_sha_transform;
    tn[0] = tn[1] = dn[0] = dn[1] = 0;
    trace[0] = trace[1] = 0;
    run = 0; verif_on = 1; ret[0] = secp256k1_ecdsa_sign(&ctx, &sig[0], msg, key[0], NULL, NULL); verif_on = 0;
    run = 1; verif_on = 1; ret[1] = secp256k1_ecdsa_sign(&ctx, &sig[1], msg, key[1], NULL, NULL); verif_on = 0;
    __CPROVER_assert(tn[0] <= TR && dn[0] <= DL, "logs large enough");
    __CPROVER_assert(tn[0] == tn[1], "same number of branch events");
    __CPROVER_assert(trace[0] == trace[1], "same branch sequence");
#ifdef WITNESS
    __CPROVER_assert(!(ret[0] && tn[0] > 100), "witness: successful signing with many events reachable");
#endif
}
