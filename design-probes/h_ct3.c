#include "cfg.h"
#define SECP256K1_CHECKMEM_H
#define SECP256K1_CHECKMEM_ENABLED 1
void verif_declassify(const void *p, unsigned long len);
#define SECP256K1_CHECKMEM_UNDEFINE(p, len) do { (void)(p); (void)(len); } while(0)
#define SECP256K1_CHECKMEM_DEFINE(p, len) verif_declassify((p), (len))
#define SECP256K1_CHECKMEM_MSAN_DEFINE(p, len) do { (void)(p); (void)(len); } while(0)
#define SECP256K1_CHECKMEM_CHECK(p, len) do { (void)(p); (void)(len); } while(0)
#define SECP256K1_CHECKMEM_RUNNING() (1)
#include "secp256k1.c"
#define TR 64
static const char *trace[2][TR]; static int tn[2]; static int run;
void verif_branch(const char *id) { if (tn[run] < TR) trace[run][tn[run]] = id; tn[run]++; }
#define DL 64
static unsigned char dlog[DL]; static int dn[2];
void verif_declassify(const void *p, unsigned long len) {
    const unsigned char *q = p;
    for (unsigned long i = 0; i < len; i++) {
        if (run == 0) { if (dn[0] < DL) dlog[dn[0]] = q[i]; dn[0]++; }
        else { if (dn[1] < DL) __CPROVER_assume(q[i] == dlog[dn[1]]); dn[1]++; }
    }
}
static int nonce_ok(unsigned char *n, const unsigned char *m, const unsigned char *k, const unsigned char *a, void *d, unsigned int c);
void harness_ct_sign_inner(void) {
    secp256k1_context ctx; unsigned char msg[32]; unsigned char key[2][32]; secp256k1_scalar r[2], s[2]; int ret[2], i;
    memset(&ctx, 0, sizeof(ctx)); ctx.declassify = 1; ctx.ecmult_gen_ctx.built = 1;
    tn[0] = tn[1] = dn[0] = dn[1] = 0;
    for (run = 0; run < 2; run++) ret[run] = secp256k1_ecdsa_sign_inner(&ctx, &r[run], &s[run], NULL, NULL, NULL, NULL, msg, key[run], NULL, NULL);
    __CPROVER_assert(tn[0] <= TR && dn[0] <= DL, "logs large enough");
    __CPROVER_assert(tn[0] == tn[1], "same number of branch events");
    for (i = 0; i < TR; i++) if (i < tn[0]) __CPROVER_assert(trace[0][i] == trace[1][i], "same branch sequence");
}
