#define ENABLE_MODULE_EXTRAKEYS 1
#define ENABLE_MODULE_SCHNORRSIG 1
#define ECMULT_WINDOW_SIZE 15
#define COMB_BLOCKS 43
#define COMB_TEETH 6
#include "secp256k1.c"

size_t nondet_size_t(void);
unsigned char nondet_uchar(void);

#ifndef MAXLEN
#define MAXLEN 12
#endif

void harness_der_roundtrip(void) {
    unsigned char in[MAXLEN];
    unsigned char out[80];
    size_t len = nondet_size_t();
    size_t outlen = 80;
    secp256k1_scalar r, s;
    __CPROVER_assume(len <= MAXLEN);
    for (size_t i = 0; i < MAXLEN; i++) in[i] = nondet_uchar();
    if (secp256k1_ecdsa_sig_parse(&r, &s, in, len)) {
        int ok = secp256k1_ecdsa_sig_serialize(out, &outlen, &r, &s);
        __CPROVER_assert(ok, "serialize ok");
        /* if parsed r,s nonzero (not overflowed) then bytes roundtrip */
        if (!secp256k1_scalar_is_zero(&r) && !secp256k1_scalar_is_zero(&s)) {
            __CPROVER_assert(outlen == len, "len rt");
            for (size_t i = 0; i < MAXLEN; i++) if (i < len) __CPROVER_assert(out[i] == in[i], "bytes rt");
        }
#ifdef WITNESS
        __CPROVER_assert(0, "witness reach");
#endif
    }
}
