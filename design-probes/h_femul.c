#define ECMULT_WINDOW_SIZE 15
#define COMB_BLOCKS 43
#define COMB_TEETH 6
#include "secp256k1.c"

typedef unsigned __CPROVER_bitvector[128] bv128;
typedef unsigned __CPROVER_bitvector[704] bvw;
bv128 __CPROVER_uninterpreted_mul64(uint64_t a, uint64_t b);

uint64_t nondet_u64(void);

static bvw spec_fold(bvw T) {
    const bvw Rp = 0x1000003D1ULL;
    bvw mask = (((bvw)1) << 256) - 1;
    T = (T & mask) + (T >> 256) * Rp;
    T = (T & mask) + (T >> 256) * Rp;
    T = (T & mask) + (T >> 256) * Rp;
    return T;
}

void harness_fe_mul(void) {
    uint64_t a[5], b[5], r[5];
    int i, j;
    bvw T = 0, V = 0, P;
    for (i = 0; i < 5; i++) { a[i] = nondet_u64(); b[i] = nondet_u64(); }
    for (i = 0; i < 4; i++) { __CPROVER_assume((a[i] >> 56) == 0); __CPROVER_assume((b[i] >> 56) == 0); }
    __CPROVER_assume((a[4] >> 52) == 0); __CPROVER_assume((b[4] >> 52) == 0);
    for (i = 0; i < 5; i++) for (j = 0; j < 5; j++) {
        uint64_t hi_, lo_ = secp256k1_umul128(a[i], b[j], &hi_); bv128 pij = (((bv128)hi_) << 64) | lo_;
        /* axiom: product of an m-bit and a k-bit number has m+k bits */
        __CPROVER_assume((pij >> ((i==4?52:56) + (j==4?52:56))) == 0);
        T += ((bvw)pij) << (52*(i+j));
    }
    secp256k1_fe_mul_inner(r, a, b);
    for (i = 0; i < 5; i++) V += ((bvw)r[i]) << (52*i);
    P = (((bvw)1) << 256) - (bvw)0x1000003D1ULL;
    T = spec_fold(T);
    V = spec_fold(V);
    /* both < 2^256 + small; bring to canonical */
    if (T >= P) T -= P;
    if (T >= P) T -= P;
    if (V >= P) V -= P;
    if (V >= P) V -= P;
    __CPROVER_assert(T < P && V < P, "canonical");
    __CPROVER_assert(T == V, "fe_mul_inner == a*b mod p");
    for (i = 0; i < 4; i++) __CPROVER_assert((r[i] >> 52) == 0, "limb bound");
    __CPROVER_assert((r[4] >> 49) == 0, "top limb bound");
#ifdef WITNESS
    __CPROVER_assert(0, "witness");
#endif
}
