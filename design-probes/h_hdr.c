#include "cfg.h"
#include "secp256k1.c"
typedef unsigned __CPROVER_bitvector[192] bvw;
size_t nondet_size_t(void);
void harness_hdr(void) {
    unsigned char proof[16]; size_t plen = nondet_size_t(), offset = 0; int exp, mantissa, ret; uint64_t scale, minv, maxv;
    proof[0] = (proof[0] & 0xE0) | EXPC;               /* class: exponent field assigned, flag bits symbolic */
    ret = secp256k1_rangeproof_getheader_impl(&offset, &exp, &mantissa, &scale, &minv, &maxv, proof, plen);
    {   /* reference, 192-bit arithmetic, written from the header specification */
        int has_range = (proof[0] & 64) != 0, has_min = (proof[0] & 32) != 0, ok = 1; size_t off = 1; int e = -1, m = 0, i;
        bvw mx = 0, mn = 0, sc = 1, LIM = (((bvw)1) << 64) - 1;
        if (plen < 65 || (proof[0] & 128)) ok = 0;
        if (ok && has_range) { e = proof[0] & 31; if (e > 18) ok = 0; m = proof[1] + 1; off = 2; if (ok && m > 64) ok = 0; if (ok) mx = (((bvw)1) << m) - 1; }
        if (ok) { for (i = 0; i < EXPC && i < e; i++) { mx *= 10; sc *= 10; } if (mx > LIM) ok = 0; }
        if (ok && has_min) { if (plen - off < 8) ok = 0; else { for (i = 0; i < 8; i++) mn = (mn << 8) | proof[off + i]; off += 8; } }
        if (ok && mx + mn > LIM) ok = 0;
        __CPROVER_assert(ret == ok, "accepts exactly the specified headers");
        if (ret) {
            __CPROVER_assert(offset == off && exp == e && mantissa == m, "decoded fields");
            __CPROVER_assert((bvw)minv == mn && (bvw)maxv == mx + mn && (bvw)scale == sc, "reported range and scale");
        }
#ifdef WITNESS
        __CPROVER_assert(!(ret && has_range && has_min && m == 40), "witness");
#endif
    }
}
