static const int ctab[2] = {5, 6};
static int mut = 7;
static int fn(void) { static int scratch[2] = {0}; scratch[1] = 3; return scratch[0] + scratch[1]; }
int main(void) { __CPROVER_assert(ctab[0] == 5, "const table keeps its value"); __CPROVER_assert(mut == 7, "mutable static keeps initial value"); __CPROVER_assert(fn() == 3, "function-local static read before write"); return 0; }
