#define ECMULT_WINDOW_SIZE 15
#define COMB_BLOCKS 43
#define COMB_TEETH 6
#include "secp256k1.c"
typedef unsigned __CPROVER_bitvector[320] bvw;
uint64_t nondet_u64(void);
static bvw val(const secp256k1_fe *a){ bvw v=0; for(int i=0;i<5;i++) v += ((bvw)a->n[i]) << (52*i); return v; }
#ifndef MAG
#define MAG 32
#endif
void harness(void) {
    secp256k1_fe a, r, v2; int i;
    bvw P = (((bvw)1) << 256) - (bvw)0x1000003D1ULL;
    for (i=0;i<5;i++) a.n[i]=nondet_u64();
    for (i=0;i<4;i++) __CPROVER_assume(a.n[i] <= 2ULL*MAG*0xFFFFFFFFFFFFFULL);
    __CPROVER_assume(a.n[4] <= 2ULL*MAG*0x0FFFFFFFFFFFFULL);
    r = a; secp256k1_fe_impl_normalize(&r);
    bvw A = val(&a), Rv = val(&r);
#ifdef T_CANON
    __CPROVER_assert(Rv < P, "canonical");
    for (i=0;i<4;i++) __CPROVER_assert((r.n[i]>>52)==0, "limb");
    __CPROVER_assert((r.n[4]>>48)==0, "limb4");
#endif
#ifdef T_MOD
    __CPROVER_assert(A % P == Rv, "residue by mod");
#endif
#ifdef T_KLOOP
    { int found = 0; bvw acc = Rv;
    for (int k=0;k<=2*MAG+2;k++){ if (acc == A) found = 1; acc += P; }
    __CPROVER_assert(found, "same residue"); }
#endif
#ifdef T_VAR
    v2 = a; secp256k1_fe_impl_normalize_var(&v2);
    for (i=0;i<5;i++) __CPROVER_assert(v2.n[i]==r.n[i], "normalize_var agrees");
#endif
#ifdef T_NTZ
    __CPROVER_assert(secp256k1_fe_impl_normalizes_to_zero(&a) == (Rv==0), "ntz");
    __CPROVER_assert(secp256k1_fe_impl_normalizes_to_zero_var(&a) == (Rv==0), "ntzv");
#endif
#ifdef T_B32
    { unsigned char b32[32]; secp256k1_fe q; int ok;
      for(i=0;i<32;i++) b32[i]=(unsigned char)nondet_u64();
      bvw B=0; for(i=0;i<32;i++) B = (B<<8) | b32[i];
      ok = secp256k1_fe_impl_set_b32_limit(&q,b32);
      __CPROVER_assert(ok == (B < P), "limit");
      __CPROVER_assert(val(&q)==B, "value");
      unsigned char o[32]; if (ok) { secp256k1_fe_impl_get_b32(o,&q); for(i=0;i<32;i++) __CPROVER_assert(o[i]==b32[i],"rt"); }
    }
#endif
}
