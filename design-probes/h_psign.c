#include "cfg.h"
#include "secp256k1.c"
unsigned char nondet_uchar(void);
int nondet_int(void);
static int illegal_count = 0;
static void count_illegal(const char *msg, void *data) { (void)msg; (void)data; illegal_count++; }
static void havoc(void *p, size_t n) { unsigned char *q = p; for (size_t i = 0; i < n; i++) q[i] = nondet_uchar(); }

void harness_partial_sign(void) {
    secp256k1_context ctx;
    secp256k1_musig_partial_sig psig;
    secp256k1_musig_secnonce secnonce, pre;
    secp256k1_keypair keypair;
    secp256k1_musig_keyagg_cache cache;
    secp256k1_musig_session session;
    int ret, i, allzero = 1;
    int psig_null = nondet_int(), kp_null = nondet_int(), cache_null = nondet_int(), sess_null = nondet_int();
    havoc(&ctx, sizeof(ctx));
    ctx.illegal_callback.fn = count_illegal; ctx.error_callback.fn = count_illegal;
    ctx.hash_ctx.fn_sha256_compression = secp256k1_sha256_transform;
    ctx.declassify = 0;
    havoc(&psig, sizeof(psig)); havoc(&secnonce, sizeof(secnonce)); havoc(&keypair, sizeof(keypair));
    havoc(&cache, sizeof(cache)); havoc(&session, sizeof(session));
    pre = secnonce;
    ret = secp256k1_musig_partial_sign(&ctx, psig_null ? NULL : &psig, &secnonce, kp_null ? NULL : &keypair,
                                       cache_null ? NULL : &cache, sess_null ? NULL : &session);
    for (i = 0; i < (int)sizeof(secnonce.data); i++) allzero &= (secnonce.data[i] == 0);
    __CPROVER_assert(allzero, "secnonce wiped after every call");
    __CPROVER_assert(ret == 0 || ret == 1, "boolean");
    if (ret) {
        __CPROVER_assert(illegal_count == 0, "success => no illegal callback");
        __CPROVER_assert(memcmp(pre.data, secp256k1_musig_secnonce_magic, 4) == 0, "success => magic");
        __CPROVER_assert(memcmp(&pre.data[68], &keypair.data[32], 64) == 0 , "success => nonce bound to same pk bytes");
        int z = 1; for (i = 4; i < 68; i++) z &= (pre.data[i] == 0);
        __CPROVER_assert(!z, "success => nonzero nonce");
    }
#ifdef WITNESS
    __CPROVER_assert(!ret, "witness: success reachable");
#endif
}
