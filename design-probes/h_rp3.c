#include "cfg.h"
#include "secp256k1.c"
uint64_t nondet_u64(void); int nondet_int(void);
void harness_rp(void) {
    uint64_t v, min_value = nondet_u64(), value = nondet_u64(), scale;
    size_t rings, rsizes[32], npub, secidx[32];
    int mantissa, exp = nondet_int(), min_bits = nondet_int();
    __CPROVER_assume(!(min_value > value || min_bits > 64 || min_bits < 0 || exp < -1 || exp > 18));
    if (secp256k1_range_proveparams(&v, &rings, rsizes, &npub, secidx, &min_value, &mantissa, &scale, &exp, &min_bits, value)) {
        unsigned char proof[80]; size_t len = 0, off = 0, i;
        int exp2, mant2; uint64_t scale2, minv2, maxv2, t;
        __CPROVER_assume(exp == KOUT && mantissa == MOUT);   /* output class */
        memset(proof, 0, sizeof(proof));
        proof[len] = (rsizes[0] > 1 ? (64 | exp) : 0) | (min_value ? 32 : 0); len++;
        if (rsizes[0] > 1) { proof[len] = mantissa - 1; len++; }
        if (min_value) { for (i = 0; i < 8; i++) proof[len + i] = (min_value >> ((7-i) * 8)) & 255; len += 8; }
        t = v; for (i = 0; i < KOUT; i++) t *= 10;          /* v * 10^exp, computed the way the code does */
        __CPROVER_assert(t + min_value == value, "decomposition");
        __CPROVER_assert(secp256k1_rangeproof_getheader_impl(&off, &exp2, &mant2, &scale2, &minv2, &maxv2, proof, 80), "header accepted by verifier");
        __CPROVER_assert(minv2 == min_value && minv2 <= value && value <= maxv2, "value inside proven range");
#ifdef WITNESS
        __CPROVER_assert(0, "witness");
#endif
    }
}
