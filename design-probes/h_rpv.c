#include "cfg.h"
#include "secp256k1.c"
unsigned char nondet_uchar(void); int nondet_int(void); size_t nondet_size_t(void); uint64_t nondet_u64(void);
static int illegal_count;
static void count_illegal(const char *msg, void *data) { (void)msg; (void)data; illegal_count++; }
static void havoc(void *p, size_t n) { unsigned char *q = p; for (size_t i = 0; i < n; i++) q[i] = nondet_uchar(); }
/* ---- W stubs: multiplicative math is opaque ---- */
void w_fe(secp256k1_fe *r) { int i; for (i = 0; i < 5; i++) r->n[i] = nondet_u64(); for (i = 0; i < 4; i++) __CPROVER_assume(r->n[i] <= 0xFFFFFFFFFFFFFULL); __CPROVER_assume(r->n[4] <= 0x0FFFFFFFFFFFFULL); }
void w_gej(secp256k1_gej *r) { w_fe(&r->x); w_fe(&r->y); w_fe(&r->z); r->infinity = nondet_int() & 1; }
int w_ge_set_xquad(secp256k1_ge *r, const secp256k1_fe *x) { r->x = *x; w_fe(&r->y); r->infinity = 0; return nondet_int() & 1; }
void w_gej_add_ge_var(secp256k1_gej *r, const secp256k1_gej *a, const secp256k1_ge *b, secp256k1_fe *rzr) { (void)a; (void)b; if (rzr) w_fe(rzr); w_gej(r); }
void w_gej_add_var(secp256k1_gej *r, const secp256k1_gej *a, const secp256k1_gej *b, secp256k1_fe *rzr) { (void)a; (void)b; if (rzr) w_fe(rzr); w_gej(r); }
void w_gej_double_var(secp256k1_gej *r, const secp256k1_gej *a, secp256k1_fe *rzr) { (void)a; if (rzr) w_fe(rzr); w_gej(r); }
void w_ecmult_const(secp256k1_gej *r, const secp256k1_ge *a, const secp256k1_scalar *q) { (void)a; (void)q; w_gej(r); }
void w_ecmult(secp256k1_gej *r, const secp256k1_gej *a, const secp256k1_scalar *na, const secp256k1_scalar *ng) { (void)a; (void)na; (void)ng; w_gej(r); }
void w_ge_set_gej_var(secp256k1_ge *r, secp256k1_gej *a) { w_fe(&r->x); w_fe(&r->y); r->infinity = a->infinity; }
void w_sha_write(const secp256k1_hash_ctx *hc, secp256k1_sha256 *h, const unsigned char *data, size_t len) { (void)hc; __CPROVER_assert(len == 0 || __CPROVER_r_ok(data, len), "sha256_write reads inside its input"); for (int i = 0; i < 8; i++) h->s[i] = (uint32_t)nondet_u64(); h->bytes += len; }
void w_sha_finalize(const secp256k1_hash_ctx *hc, secp256k1_sha256 *h, unsigned char *out32) { (void)hc; __CPROVER_assert(__CPROVER_w_ok(out32, 32), "sha256_finalize writes 32 bytes"); for (int i = 0; i < 32; i++) out32[i] = nondet_uchar(); for (int i = 0; i < 8; i++) h->s[i] = 0; }
void w_fe_mul(secp256k1_fe *r, const secp256k1_fe *a, const secp256k1_fe * SECP256K1_RESTRICT b) { (void)a; (void)b; w_fe(r); }
void w_fe_sqr(secp256k1_fe *r, const secp256k1_fe *a) { (void)a; w_fe(r); }
void w_fe_inv(secp256k1_fe *r, const secp256k1_fe *a) { (void)a; w_fe(r); }
int w_fe_sqrt(secp256k1_fe * SECP256K1_RESTRICT r, const secp256k1_fe * SECP256K1_RESTRICT a) { (void)a; w_fe(r); return nondet_int() & 1; }
int w_fe_is_square_var(const secp256k1_fe *a) { (void)a; return nondet_int() & 1; }
void w_sha_transform(uint32_t *s, const unsigned char *b) { (void)b; for (int i = 0; i < 8; i++) s[i] = (uint32_t)nondet_u64(); }
#ifndef PLEN
#define PLEN 5134
#endif
void harness_rpv(void) {
    secp256k1_context ctx; secp256k1_pedersen_commitment commit; secp256k1_generator gen;
    unsigned char proof[PLEN + 8]; unsigned char extra[16];
    uint64_t minv, maxv; size_t plen = nondet_size_t(), elen = nondet_size_t(); int ret;
    memset(&ctx, 0, sizeof(ctx)); illegal_count = 0;
    ctx.illegal_callback.fn = count_illegal; ctx.error_callback.fn = count_illegal;
    ctx.hash_ctx.fn_sha256_compression = secp256k1_sha256_transform;
    
    __CPROVER_assume(plen <= PLEN + 8); __CPROVER_assume(elen <= 16);
#ifdef HDR0
    proof[0] = HDR0; proof[1] = HDR1;
#endif
    ret = secp256k1_rangeproof_verify(&ctx, &minv, &maxv, &commit, proof, plen, extra, elen, &gen);
    __CPROVER_assert(ret == 0 || ret == 1, "boolean");
    __CPROVER_assert(illegal_count == 0, "no callback");
    if (ret) { __CPROVER_assert(minv <= maxv, "range ordered"); __CPROVER_assert((proof[0] & 128) == 0, "reserved bit"); }
#ifdef WITNESS
    __CPROVER_assert(!ret, "witness: accept reachable");
#endif
}
