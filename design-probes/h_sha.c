#include "cfg.h"
#include "secp256k1.c"
uint32_t nondet_u32(void); unsigned char nondet_uchar(void);
static const uint32_t K[64] = {
0x428a2f98,0x71374491,0xb5c0fbcf,0xe9b5dba5,0x3956c25b,0x59f111f1,0x923f82a4,0xab1c5ed5,0xd807aa98,0x12835b01,0x243185be,0x550c7dc3,0x72be5d74,0x80deb1fe,0x9bdc06a7,0xc19bf174,
0xe49b69c1,0xefbe4786,0x0fc19dc6,0x240ca1cc,0x2de92c6f,0x4a7484aa,0x5cb0a9dc,0x76f988da,0x983e5152,0xa831c66d,0xb00327c8,0xbf597fc7,0xc6e00bf3,0xd5a79147,0x06ca6351,0x14292967,
0x27b70a85,0x2e1b2138,0x4d2c6dfc,0x53380d13,0x650a7354,0x766a0abb,0x81c2c92e,0x92722c85,0xa2bfe8a1,0xa81a664b,0xc24b8b70,0xc76c51a3,0xd192e819,0xd6990624,0xf40e3585,0x106aa070,
0x19a4c116,0x1e376c08,0x2748774c,0x34b0bcb5,0x391c0cb3,0x4ed8aa4a,0x5b9cca4f,0x682e6ff3,0x748f82ee,0x78a5636f,0x84c87814,0x8cc70208,0x90befffa,0xa4506ceb,0xbef9a3f7,0xc67178f2};
#define ROTR(x,n) (((x)>>(n))|((x)<<(32-(n))))
static void ref_compress(uint32_t *H, const unsigned char *M) { /* FIPS 180-4 section 6.2.2 */
    uint32_t W[64], a,b,c,d,e,f,g,h,T1,T2; int t;
    for (t=0;t<16;t++) W[t]=((uint32_t)M[4*t]<<24)|((uint32_t)M[4*t+1]<<16)|((uint32_t)M[4*t+2]<<8)|M[4*t+3];
    for (t=16;t<64;t++) { uint32_t s0=ROTR(W[t-15],7)^ROTR(W[t-15],18)^(W[t-15]>>3), s1=ROTR(W[t-2],17)^ROTR(W[t-2],19)^(W[t-2]>>10); W[t]=s1+W[t-7]+s0+W[t-16]; }
    a=H[0];b=H[1];c=H[2];d=H[3];e=H[4];f=H[5];g=H[6];h=H[7];
    for (t=0;t<64;t++) { T1=h+(ROTR(e,6)^ROTR(e,11)^ROTR(e,25))+((e&f)^(~e&g))+K[t]+W[t]; T2=(ROTR(a,2)^ROTR(a,13)^ROTR(a,22))+((a&b)^(a&c)^(b&c)); h=g;g=f;f=e;e=d+T1;d=c;c=b;b=a;a=T1+T2; }
    H[0]+=a;H[1]+=b;H[2]+=c;H[3]+=d;H[4]+=e;H[5]+=f;H[6]+=g;H[7]+=h;
}
void harness_sha(void) {
    uint32_t s1[8], s2[8]; unsigned char blk[64]; int i;
    for (i=0;i<8;i++) s1[i]=s2[i]=nondet_u32();
    for (i=0;i<64;i++) blk[i]=nondet_uchar();
    secp256k1_sha256_transform_impl(s1, blk);
    ref_compress(s2, blk);
    for (i=0;i<8;i++) __CPROVER_assert(s1[i]==s2[i], "compression equals FIPS 180-4 reference");
}
