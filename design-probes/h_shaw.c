#include "cfg.h"
#include "secp256k1.c"
size_t nondet_size_t(void); uint64_t nondet_u64(void); unsigned char nondet_uchar(void); uint32_t nondet_u32(void);
#ifndef MAXLEN
#define MAXLEN 4096
#endif
/* log of compression calls */
static const unsigned char *log_ptr[4]; static size_t log_n[4]; static int log_cnt; static unsigned char log_first_block[64];
static void log_compress(uint32_t *state, const unsigned char *blocks, size_t n) {
    int i;
    if (log_cnt < 4) { log_ptr[log_cnt] = blocks; log_n[log_cnt] = n; }
    if (log_cnt == 0) for (i = 0; i < 64; i++) log_first_block[i] = blocks[i];
    log_cnt++;
    for (i = 0; i < 8; i++) state[i] = nondet_u32();
}
void harness_sha_write(void) {
    secp256k1_hash_ctx hc; secp256k1_sha256 h, pre; unsigned char data[MAXLEN]; size_t len = nondet_size_t(), B, i;
#ifdef MUT
    /* mutant from the property text: silently truncate long messages */
#endif
    hc.fn_sha256_compression = log_compress; log_cnt = 0;
    __CPROVER_assume(len <= MAXLEN);
    __CPROVER_assume(h.bytes < ((uint64_t)1 << 60));
    pre = h; B = pre.bytes & 63;
    secp256k1_sha256_write(&hc, &h, data, len);
    __CPROVER_assert(h.bytes == pre.bytes + len, "byte counter");
    {
        size_t total = B + len, nblocks = total / 64, rem = total % 64, k = nondet_size_t();
        size_t expect_calls = (nblocks == 0) ? 0 : ((B > 0 ? 1 : 0) + ((nblocks - (B > 0 ? 1 : 0)) > 0 ? 1 : 0));
        __CPROVER_assert((size_t)log_cnt == expect_calls, "number of compression calls");
        if (B > 0 && nblocks > 0) {
            __CPROVER_assert(log_ptr[0] == h.buf && log_n[0] == 1, "first call: the completed buffer");
#ifndef NOCONTENT
            __CPROVER_assume(k < 64);
            __CPROVER_assert(log_first_block[k] == (k < B ? pre.buf[k] : data[k - B]), "buffer block = old tail ++ new head");
#endif
            if (nblocks > 1) __CPROVER_assert(log_ptr[1] == data + (64 - B) && log_n[1] == nblocks - 1, "second call: whole blocks straight from the input");
        } else if (nblocks > 0) {
            __CPROVER_assert(log_ptr[0] == data && log_n[0] == nblocks, "whole blocks straight from the input");
        }
        /* the remainder sits in the buffer */
#ifndef NOCONTENT
        __CPROVER_assume(k < 64);
        if (k < rem) __CPROVER_assert(h.buf[k] == ((nblocks == 0 && k < B) ? pre.buf[k] : data[len - rem + k]), "buffer holds the unprocessed tail");
#endif
    }
}
