#include "cfg.h"
#include "secp256k1.c"
size_t nondet_size_t(void); uint32_t nondet_u32(void);
#ifndef NMAX
#define NMAX 8
#endif
static int cmp_u32(const void *a, const void *b, void *d) { uint32_t x = *(const uint32_t*)a, y = *(const uint32_t*)b; (void)d; return x < y ? -1 : x > y; }
void harness_sort(void) {
    uint32_t arr[NMAX], pre[NMAX]; size_t n = nondet_size_t(), i; uint32_t w = nondet_u32(); size_t c0 = 0, c1 = 0;
    __CPROVER_assume(n <= NMAX);
    for (i = 0; i < NMAX; i++) pre[i] = arr[i];
    secp256k1_hsort(arr, n, sizeof(arr[0]), cmp_u32, NULL);
    for (i = 0; i + 1 < NMAX; i++) if (i + 1 < n) __CPROVER_assert(arr[i] <= arr[i+1], "sorted");
    for (i = 0; i < NMAX; i++) if (i < n) { c0 += (pre[i] == w); c1 += (arr[i] == w); }
    __CPROVER_assert(c0 == c1, "permutation: every value keeps its multiplicity");
    for (i = 0; i < NMAX; i++) if (i >= n) __CPROVER_assert(arr[i] == pre[i], "nothing beyond n touched");
}
