#include "cfg.h"
#include "secp256k1.c"
size_t nondet_size_t(void);
void *w_memcpy(void *dst, const void *src, size_t n) { __CPROVER_assert(n == 0 || __CPROVER_r_ok(src, n), "memcpy reads inside source"); __CPROVER_assert(n == 0 || __CPROVER_w_ok(dst, n), "memcpy writes inside destination"); if (n) __CPROVER_havoc_slice(dst, n); return dst; }
static int illegal_count;
static void count_illegal(const char *msg, void *data) { (void)msg; (void)data; illegal_count++; }
#ifndef INLEN
#define INLEN 8266
#endif
void harness_surj_parse(void) {
    secp256k1_context ctx; secp256k1_surjectionproof proof; unsigned char in[INLEN]; unsigned char out[INLEN]; size_t len = nondet_size_t(), outlen = INLEN, k = nondet_size_t();
    memset(&ctx, 0, sizeof(ctx)); illegal_count = 0; ctx.illegal_callback.fn = count_illegal; ctx.error_callback.fn = count_illegal;
    __CPROVER_assume(len <= INLEN);
    if (secp256k1_surjectionproof_parse(&ctx, &proof, in, len)) {
        size_t n = proof.n_inputs, used = secp256k1_surjectionproof_n_used_inputs(&ctx, &proof);
        __CPROVER_assert(n <= 256, "at most 256 inputs");
        __CPROVER_assert(n == (size_t)in[0] + 256 * (size_t)in[1], "count field");
        __CPROVER_assert(len == 2 + (n + 7) / 8 + 32 * (1 + used), "exact length");
        __CPROVER_assert(n % 8 == 0 || (in[2 + (n + 7) / 8 - 1] >> (n % 8)) == 0, "no padding bits");
        __CPROVER_assert(secp256k1_surjectionproof_serialize(&ctx, out, &outlen, &proof) && outlen == len, "serialize");
#ifdef WITNESS
        __CPROVER_assert(!(n == 256 && used == 256), "witness: full-size proof reachable");
#endif
    }
    __CPROVER_assert(illegal_count == 0, "no callback");
}
