#include "cfg.h"
#include "secp256k1.c"
size_t nondet_size_t(void);
static int illegal_count;
static void count_illegal(const char *msg, void *data) { (void)msg; (void)data; illegal_count++; }
#ifndef NIN
#define NIN 256
#endif
#define INLEN (2 + 32 + 32 * 257 + 8)
/* size class: the 16-bit count field is assigned, so bitmap length and all offsets are concrete */
void harness_surj_parse(void) {
    secp256k1_context ctx; secp256k1_surjectionproof proof; unsigned char in[INLEN]; size_t len = nondet_size_t();
    memset(&ctx, 0, sizeof(ctx)); illegal_count = 0; ctx.illegal_callback.fn = count_illegal; ctx.error_callback.fn = count_illegal;
    in[0] = NIN & 255; in[1] = NIN >> 8;
    __CPROVER_assume(len <= INLEN);
    if (secp256k1_surjectionproof_parse(&ctx, &proof, in, len)) {
        size_t n = proof.n_inputs, used = secp256k1_surjectionproof_n_used_inputs(&ctx, &proof);
        __CPROVER_assert(NIN <= 256, "at most 256 inputs");
        __CPROVER_assert(n == NIN, "count field");
        __CPROVER_assert(len == 2 + (n + 7) / 8 + 32 * (1 + used), "exact length");
        __CPROVER_assert(n % 8 == 0 || (in[2 + (n + 7) / 8 - 1] >> (n % 8)) == 0, "no padding bits");
#ifdef WITNESS
        __CPROVER_assert(!(used == NIN), "witness: all inputs used reachable");
#endif
    }
    __CPROVER_assert(illegal_count == 0, "no callback");
}
