#include "cfg.h"
#include "secp256k1.c"
unsigned char nondet_uchar(void);
#ifdef MUT
/* mutant from the property text: scratch arrays made static */
static int mut_sig_serialize(unsigned char *sig, size_t *size, const secp256k1_scalar* ar, const secp256k1_scalar* as) {
    static unsigned char r[33] = {0}, s[33] = {0};
    unsigned char *rp = r, *sp = s;
    size_t lenR = 33, lenS = 33;
    secp256k1_scalar_get_b32(&r[1], ar);
    secp256k1_scalar_get_b32(&s[1], as);
    while (lenR > 1 && rp[0] == 0 && rp[1] < 0x80) { lenR--; rp++; }
    while (lenS > 1 && sp[0] == 0 && sp[1] < 0x80) { lenS--; sp++; }
    if (*size < 6+lenS+lenR) { *size = 6 + lenS + lenR; return 0; }
    *size = 6 + lenS + lenR;
    sig[0] = 0x30; sig[1] = 4 + lenS + lenR; sig[2] = 0x02; sig[3] = lenR;
    memcpy(sig+4, rp, lenR);
    sig[4+lenR] = 0x02; sig[5+lenR] = lenS;
    memcpy(sig+lenR+6, sp, lenS);
    return 1;
}
#define SER mut_sig_serialize
#else
#define SER secp256k1_ecdsa_sig_serialize
#endif
static secp256k1_scalar R[2], S[2];
static unsigned char out[2][72]; static size_t outlen[2]; static int ok[2];
static _Bool done0;
static void worker0(void) { ok[0] = SER(out[0], &outlen[0], &R[0], &S[0]); done0 = 1; }
static void worker1(void) { ok[1] = SER(out[1], &outlen[1], &R[1], &S[1]); }
void harness_thr(void) {
    unsigned char ref[2][72]; size_t reflen[2] = {72,72}; int refok[2], i, j;
    for (j = 0; j < 2; j++) { for (i = 0; i < 4; i++) { R[j].d[i] = nondet_uchar(); S[j].d[i] = nondet_uchar(); } outlen[j] = 72; }
    /* sequential reference */
    for (j = 0; j < 2; j++) refok[j] = SER(ref[j], &reflen[j], &R[j], &S[j]);
    __CPROVER_ASYNC_1: worker0();
    worker1();
    /* join is modelled by asserting only after both flags... use atomic section */
    __CPROVER_assume(done0);
    for (j = 0; j < 2; j++) { __CPROVER_assert(ok[j] == refok[j] && outlen[j] == reflen[j], "same result as sequential");
      for (i = 0; i < 72; i++) if ((size_t)i < reflen[j]) __CPROVER_assert(out[j][i] == ref[j][i], "same bytes as sequential"); }
}
