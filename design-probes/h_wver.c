#include "cfg.h"
#include "secp256k1.c"
typedef unsigned __CPROVER_bitvector[320] bvw;
int nondet_int(void); uint64_t nondet_u64(void);
secp256k1_scalar nondet_scalar(void); secp256k1_fe nondet_fe(void);
static bvw fe_val(const secp256k1_fe *a){ bvw v=0; for(int i=0;i<5;i++) v += ((bvw)a->n[i]) << (52*i); return v; }
static bvw sc_val(const secp256k1_scalar *a){ bvw v=0; for(int i=0;i<4;i++) v += ((bvw)a->d[i]) << (64*i); return v; }
static bvw Pc(void){ return (((bvw)1) << 256) - (bvw)0x1000003D1ULL; }
static bvw Nc(void){ bvw n = 0xFFFFFFFFFFFFFFFFULL; n = (n << 64) | 0xFFFFFFFFFFFFFFFEULL; n = (n << 64) | 0xBAAEDCE6AF48A03BULL; n = (n << 64) | 0xBFD25E8CD0364141ULL; return n; }
static int fe_is_one(const secp256k1_fe *a) { return a->n[0] == 1 && !(a->n[1] | a->n[2] | a->n[3] | a->n[4]); }
/* opaque kernels, transparent on the trivial operand */
void w_fe_sqr(secp256k1_fe *r, const secp256k1_fe *a) { if (fe_is_one(a)) *r = *a; else *r = nondet_fe(); }
void w_fe_mul(secp256k1_fe *r, const secp256k1_fe *a, const secp256k1_fe * SECP256K1_RESTRICT b) { if (fe_is_one(a)) *r = *b; else if (fe_is_one(b)) *r = *a; else *r = nondet_fe(); }
void w_scalar_inverse_var(secp256k1_scalar *r, const secp256k1_scalar *x) { (void)x; *r = nondet_scalar(); __CPROVER_assume(sc_val(r) < Nc()); }
void w_scalar_mul(secp256k1_scalar *r, const secp256k1_scalar *a, const secp256k1_scalar *b) { (void)a; (void)b; *r = nondet_scalar(); __CPROVER_assume(sc_val(r) < Nc()); }
static secp256k1_gej the_R;
void w_ecmult(secp256k1_gej *r, const secp256k1_gej *a, const secp256k1_scalar *na, const secp256k1_scalar *ng) { (void)a; (void)na; (void)ng; *r = the_R; }
void harness_wverify(void) {
    secp256k1_scalar r = nondet_scalar(), s = nondet_scalar(), m = nondet_scalar(); secp256k1_ge pub; int i, ret; bvw X, rv, sv;
    __CPROVER_assume(sc_val(&r) < Nc() && sc_val(&s) < Nc() && sc_val(&m) < Nc());     /* scalars as the parsers produce them */
    pub.x = nondet_fe(); pub.y = nondet_fe(); pub.infinity = 0;
    for (i = 0; i < 4; i++) { __CPROVER_assume((pub.x.n[i] >> 52) == 0 && (pub.y.n[i] >> 52) == 0); } __CPROVER_assume((pub.x.n[4] >> 48) == 0 && (pub.y.n[4] >> 48) == 0);
    /* the curve result: any affine point representation with z = 1 and canonical x, or infinity */
    the_R.x = nondet_fe(); the_R.y = nondet_fe(); the_R.infinity = nondet_int() & 1;
    for (i = 0; i < 4; i++) { __CPROVER_assume((the_R.x.n[i] >> 52) == 0); the_R.z.n[i+1] = 0; } the_R.z.n[0] = 1; __CPROVER_assume((the_R.x.n[4] >> 48) == 0);
    X = fe_val(&the_R.x); __CPROVER_assume(X < Pc());
    ret = secp256k1_ecdsa_sig_verify(&r, &s, &pub, &m);
    rv = sc_val(&r); sv = sc_val(&s);
    __CPROVER_assert(ret == (rv != 0 && sv != 0 && !the_R.infinity && (X % Nc()) == rv), "verify == (r,s nonzero, R finite, x(R) mod n == r)");
#ifdef WITNESS
    __CPROVER_assert(!(ret && X >= Nc()), "witness: acceptance through the xr+n<p branch reachable");
#endif
}
