#!/usr/bin/env python3
"""prototype 2: straight-line LLVM IR -> z3 Int encoding, values kept as bit-segment concatenations"""
import re, sys, time
from z3 import *
def parse(fn, ll):
    txt = open(ll).read()
    m = re.search(r'define [^@]*@%s\((.*?)\)[^{]*\{(.*?)\n\}' % re.escape(fn), txt, re.S)
    args = [a.strip().split()[-1] for a in m.group(1).split(',')]
    return args, [l.strip() for l in m.group(2).split('\n') if l.strip()]
ZERO = IntVal(0)
class Enc:
    def __init__(s, in_bits):
        s.S = Solver(); s.env = {}; s.mem = {}; s.ptr = {}; s.atoms = {}; s.oblig = []; s.in_bits = in_bits; s.fresh = 0; s.src = {}; s.cuts = {}
    # a value is (segs, hi) : segs = [(term, width)] low->high, every term in [0, 2^width); hi = upper bound of the value
    def term(s, v):
        segs, _ = v; off = 0; t = ZERO; first = True
        for (x, w) in segs:
            if not (is_int_value(x) and x.as_long() == 0):
                t = x * 2**off if first else t + x * 2**off; first = False
            off += w
        return t
    def const(s, c, w): return ([(IntVal(c), max(1, c.bit_length()))], c)
    def val(s, tok, w):
        return s.env[tok] if tok.startswith('%') else s.const(int(tok), w)
    def general(s, t, hi): return ([(t, max(1, hi.bit_length()))], hi)
    def cut_atom(s, x, w, k):
        """x in [0,2^w): x = hi*2^k + lo"""
        if is_int_value(x): v = x.as_long(); return IntVal(v % 2**k), IntVal(v >> k)
        d = s.cuts.setdefault(x.get_id(), {})
        if k in d: return d[k]
        assert not d, 'second cut of one atom at another position: refine segments instead'
        s.fresh += 1; lo = Int(f'lo{s.fresh}'); hi = Int(f'hi{s.fresh}')
        s.S.add(x == hi * 2**k + lo, lo >= 0, lo < 2**k, hi >= 0, hi < 2**(w - k))
        d[k] = (lo, hi); d['segs'] = [(lo, k), (hi, w - k)]
        return lo, hi
    def refine(s, segs):
        """replace atoms that were already cut by their pieces, so that every value sees the same atoms"""
        out = []
        for (x, w) in segs:
            d = s.cuts.get(x.get_id()) if not is_int_value(x) else None
            out += s.refine(d['segs']) if d else [(x, w)]
        return out
    def cut(s, v, k):
        segs, hi = v; segs = s.refine(segs); lo_s, hi_s, off = [], [], 0
        for (x, w) in segs:
            if off + w <= k: lo_s.append((x, w))
            elif off >= k: hi_s.append((x, w))
            else:
                l, h = s.cut_atom(x, w, k - off); lo_s.append((l, k - off)); hi_s.append((h, w - (k - off)))
            off += w
        if off < k: lo_s.append((ZERO, k - off))
        return (lo_s or [(ZERO, 1)], min(hi, 2**k - 1)), (hi_s or [(ZERO, 1)], hi >> k)
    def load(s, p):
        base, off = s.ptr[p]
        if (base, off) not in s.mem:
            b = s.in_bits[base][off]; v = Int(f'{base}_{off}'); s.S.add(v >= 0, v < 2**b)
            s.mem[(base, off)] = ([(v, b)], 2**b - 1); s.src[v.get_id()] = (base, off)
        return s.mem[(base, off)]
    def run(s, args, body):
        for a in args: s.ptr[a] = (a, 0)
        for l in body:
            l = re.sub(r', ![a-z.]+ ![0-9]+', '', l); l = re.sub(r', align \d+', '', l)
            if l.startswith('call void @llvm.experimental') or l.startswith('ret'): continue
            m = re.match(r'(%\d+) = getelementptr inbounds i64, i64\* (%\d+), i64 (\d+)', l)
            if m: b, o = s.ptr[m.group(2)]; s.ptr[m.group(1)] = (b, o + int(m.group(3))); continue
            m = re.match(r'(%\d+) = load i64, i64\* (%\d+)', l)
            if m: s.env[m.group(1)] = s.load(m.group(2)); continue
            m = re.match(r'store i64 (%\d+), i64\* (%\d+)', l)
            if m: s.mem[('OUT',) + s.ptr[m.group(2)]] = s.env[m.group(1)]; continue
            m = re.match(r'(%\d+) = icmp ult i(\d+) (\S+), (\S+)', l)
            if m:
                d, w, a, b = m.groups(); va, vb = s.val(a, int(w)), s.val(b, int(w))
                cy = getattr(s, 'carry', {}).get(va[0][0][0].get_id()) if len(va[0]) == 1 else None
                if cy and s.term(vb).get_id() in cy[1]:
                    s.env[d] = (cy[0][0], 1); continue        # (a+b mod 2^w) < b  <=>  carry out of a+b
                s.fresh += 1; c = Int(f'c{s.fresh}'); s.S.add(c >= 0, c <= 1, (c == 1) == (s.term(va) < s.term(vb)))
                s.env[d] = ([(c, 1)], 1); s.generic_icmp = getattr(s, 'generic_icmp', 0) + 1; continue
            m = re.match(r'(%\d+) = (zext|trunc) i(\d+) (\S+) to i(\d+)', l)
            if m:
                d, op, w0, a, w1 = m.groups(); v = s.val(a, int(w0)); w1 = int(w1)
                s.env[d] = v if (op == 'zext' or v[1] < 2**w1) else s.cut(v, w1)[0]; continue
            m = re.match(r'(%\d+) = (add|mul|lshr|shl|and|or)(?: nuw| nsw)* i(\d+) (\S+), (\S+)', l)
            if not m: raise SystemExit('unhandled: ' + l)
            d, op, w, a, b = m.groups(); w = int(w)
            va, vb = s.val(a, w), s.val(b, w); cb = not b.startswith('%'); ca = not a.startswith('%')
            if op == 'add':
                r = s.general(s.term(va) + s.term(vb), va[1] + vb[1])
            elif op == 'mul':
                if ca or cb: r = s.general(s.term(va) * s.term(vb), va[1] * vb[1])
                else:
                    assert len(va[0]) == 1 and len(vb[0]) == 1, 'product of two composite values'
                    ta, tb = va[0][0][0], vb[0][0][0]; key = tuple(sorted((ta.get_id(), tb.get_id())))
                    if key not in s.atoms:
                        p = Int(f'P{len(s.atoms)}'); s.S.add(p >= 0, p <= va[1] * vb[1]); s.atoms[key] = (p, ta, tb)
                    r = s.general(s.atoms[key][0], va[1] * vb[1])
            elif op == 'lshr':
                assert cb; r = s.cut(va, int(b))[1]
            elif op == 'shl':
                assert cb; k = int(b); r = ([(ZERO, k)] + s.refine(va[0]), va[1] << k)
                if r[1] >= 2**w: r = s.cut(r, w)[0]
            elif op == 'and':
                assert cb; c = int(b); lowz = (c & -c).bit_length() - 1; cc = c >> lowz
                assert cc & (cc + 1) == 0, 'mask must be contiguous'
                mid = s.cut(s.cut(va, lowz + cc.bit_length())[0], lowz)[1]
                r = ([(ZERO, lowz)] + mid[0], mid[1] << lowz) if lowz else mid
            elif op == 'or':
                # structural disjointness: lay both over the same bit grid, one of the two must be constant 0 everywhere
                sa, sb = s.refine(va[0]), s.refine(vb[0]); out = []; 
                def bits(segs):
                    o = []; 
                    for (x, ww) in segs: o += [(x, ww, i) for i in range(ww)]
                    return o
                ba, bb = bits(sa), bits(sb); n = max(len(ba), len(bb)); z = (ZERO, 1, 0)
                ba += [z] * (n - len(ba)); bb += [z] * (n - len(bb)); i = 0
                while i < n:
                    xa, xb = ba[i], bb[i]; za = is_int_value(xa[0]) and xa[0].as_long() == 0; zb = is_int_value(xb[0]) and xb[0].as_long() == 0
                    assert za or zb, 'or of overlapping bits'
                    pick = xb if za else xa
                    assert pick[2] == 0 or (out and False) or za and zb or pick[2] == 0, 'or splits a segment'
                    out.append((pick[0], pick[1])); 
                    # the whole segment must be covered by zeros on the other side
                    other = ba if za else bb
                    for j in range(i, i + pick[1]):
                        oj = other[j]; assert is_int_value(oj[0]) and oj[0].as_long() == 0, 'or of overlapping bits'
                    i += pick[1]
                r = (out, va[1] + vb[1])
            if r[1] >= 2**w:
                if getattr(s, 'wrap_ok', False) and op == 'add':
                    lo_, hi_ = s.cut(r, w); r = lo_
                    if not hasattr(s, 'carry'): s.carry = {}
                    if len(lo_[0]) == 1: s.carry[lo_[0][0][0].get_id()] = (hi_, {s.term(va).get_id(), s.term(vb).get_id()})
                else: s.oblig.append(('no-wrap', l, s.term(r) < 2**w))
            s.env[d] = r
        return s
def main_mul512(ll):
    args, body = parse('k_scalar_mul_512', ll); r_, a_, b_ = args
    t0 = time.time(); e = Enc({a_: [64]*4, b_: [64]*4}); e.wrap_ok = True; e.run(args, body)
    out = [e.mem[('OUT', r_, i)] for i in range(8)]
    V = sum(e.term(out[i]) * 2**(64*i) for i in range(8)); T = 0; seen = set()
    for key, (pv, ta, tb) in e.atoms.items():
        (ba, i), (bb, j) = e.src[ta.get_id()], e.src[tb.get_id()]; seen.add((i, j) if ba == a_ else (j, i)); T = T + pv * 2**(64*(i+j))
    assert len(seen) == 16, seen
    print('constraints', len(e.S.assertions()), 'cuts/carries', e.fresh, 'atoms', len(e.atoms), 'pending', len(e.oblig))
    for kind, l, ob in e.oblig:
        e.S.push(); e.S.add(Not(ob)); print('  no-wrap', l[:50], e.S.check()); e.S.pop()
    e.S.push(); e.S.add(V != T); print('l[0..8) != a*b ?', e.S.check()); e.S.pop()
    print('time %.2fs' % (time.time() - t0))
if __name__ == '__main__' and len(sys.argv) > 2 and sys.argv[2] == 'mul512':
    main_mul512(sys.argv[1]); sys.exit(0)
if __name__ == '__main__':
    fn = sys.argv[2] if len(sys.argv) > 2 else 'k_fe_mul_inner'
    args, body = parse(fn, sys.argv[1]); r_, a_, b_ = args
    bits = {a_: [56,56,56,56,52], b_: [56,56,56,56,52]}
    t0 = time.time(); e = Enc(bits).run(args, body); p = 2**256 - 0x1000003D1
    out = [e.mem[('OUT', r_, i)] for i in range(5)]
    V = sum(e.term(out[i]) * 2**(52*i) for i in range(5)); T = 0; seen = set()
    for key, (pv, ta, tb) in e.atoms.items():
        (ba, i), (bb, j) = e.src[ta.get_id()], e.src[tb.get_id()]
        assert {ba, bb} == {a_, b_}; seen.add((i, j) if ba == a_ else (j, i)); T = T + pv * 2**(52*(i+j))
    assert len(seen) == 25, seen
    print('constraints', len(e.S.assertions()), 'cuts', e.fresh, 'atoms', len(e.atoms), 'pending obligations', len(e.oblig))
    for kind, l, ob in e.oblig:
        e.S.push(); e.S.add(Not(ob)); print('  no-wrap', l[:40], e.S.check()); e.S.pop()
    k = Int('k'); rem = Int('rem')
    e.S.push(); e.S.add(V - T == k*p + rem, rem > 0, rem < p); print('congruence mod p violated?', e.S.check()); e.S.pop()
    for i, bnd in enumerate([52,52,52,52,49]):
        e.S.push(); e.S.add(e.term(out[i]) >= 2**bnd); print(f'r[{i}] >= 2^{bnd}?', e.S.check()); e.S.pop()
    print('time %.2fs' % (time.time() - t0))
