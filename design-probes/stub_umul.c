#include <stdint.h>
typedef unsigned __CPROVER_bitvector[128] bv128;
bv128 __CPROVER_uninterpreted_mul64(uint64_t a, uint64_t b);
uint64_t secp256k1_umul128(uint64_t a, uint64_t b, uint64_t* hi) {
    const uint64_t R = 0x1000003D10ULL;
    bv128 p;
    if (a == R || a == (R << 12) || b == (R >> 4) || a == (R>>4) || b == R || b == (R<<12)) {
        p = (bv128)a * (bv128)b;
    } else {
        p = __CPROVER_uninterpreted_mul64(a, b);
    }
    *hi = (uint64_t)(p >> 64);
    return (uint64_t)p;
}
