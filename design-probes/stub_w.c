#include "cfg.h"
#include "../../repo/src/util.h"
#include "../../repo/src/scalar.h"
#include "../../repo/src/hash.h"
uint32_t nondet_u32(void);
uint64_t nondet_u64(void);
void secp256k1_sha256_transform(uint32_t* s, const unsigned char* buf) { (void)buf; for (int i = 0; i < 8; i++) s[i] = nondet_u32(); }
static int sc_lt_n(const secp256k1_scalar *a) {
    /* n = FFFFFFFFFFFFFFFF FFFFFFFFFFFFFFFE BAAEDCE6AF48A03B BFD25E8CD0364141 */
    if (a->d[3] != 0xFFFFFFFFFFFFFFFFULL) return 1;
    if (a->d[2] < 0xFFFFFFFFFFFFFFFEULL) return 1;
    if (a->d[2] > 0xFFFFFFFFFFFFFFFEULL) return 0;
    if (a->d[1] < 0xBAAEDCE6AF48A03BULL) return 1;
    if (a->d[1] > 0xBAAEDCE6AF48A03BULL) return 0;
    return a->d[0] < 0xBFD25E8CD0364141ULL;
}
void secp256k1_scalar_mul(secp256k1_scalar *r, const secp256k1_scalar *a, const secp256k1_scalar *b) {
    secp256k1_scalar t; (void)a; (void)b;
    for (int i = 0; i < 4; i++) t.d[i] = nondet_u64();
    __CPROVER_assume(sc_lt_n(&t));
    *r = t;
}
