set -e
H=$1; shift
goto-cc -I/repo/src -I/repo/include $EXTRA $H.c -o $H.1.gb
goto-instrument --remove-function-body secp256k1_sha256_transform_impl --remove-function-body secp256k1_ecmult_gen --remove-function-body secp256k1_ecmult --remove-function-body secp256k1_ge_set_gej --remove-function-body secp256k1_ge_set_gej_var $H.1.gb $H.2.gb > gi.log 2>&1 || cat gi.log
goto-cc -I/repo/src -I/repo/include stub_t.c $H.2.gb -o $H.3.gb
