#include <stdio.h>
#define EXHAUSTIVE_TEST_ORDER 13
#include "../cfg.h"
#undef ENABLE_MODULE_BPPP
#undef ENABLE_MODULE_MUSIG
#include "secp256k1.c"
int main(void) {
    secp256k1_gej gj; secp256k1_ge g; int k, i;
    printf("/* generated from the real code, EXHAUSTIVE_TEST_ORDER=%d */\n", EXHAUSTIVE_TEST_ORDER);
    printf("static const uint64_t TG_X[%d][5] = {\n", EXHAUSTIVE_TEST_ORDER);
    uint64_t ys[EXHAUSTIVE_TEST_ORDER][5];
    secp256k1_gej_set_infinity(&gj);
    for (k = 0; k < EXHAUSTIVE_TEST_ORDER; k++) {
        if (k == 0) { printf(" {0,0,0,0,0},\n"); for(i=0;i<5;i++) ys[0][i]=0; }
        else {
            secp256k1_ge_set_gej(&g, &gj);
            secp256k1_fe_normalize(&g.x); secp256k1_fe_normalize(&g.y);
            printf(" {0x%llxULL,0x%llxULL,0x%llxULL,0x%llxULL,0x%llxULL},\n", (unsigned long long)g.x.n[0], (unsigned long long)g.x.n[1], (unsigned long long)g.x.n[2], (unsigned long long)g.x.n[3], (unsigned long long)g.x.n[4]);
            for(i=0;i<5;i++) ys[k][i]=g.y.n[i];
        }
        secp256k1_gej_add_ge(&gj, &gj, &secp256k1_ge_const_g);
    }
    printf("};\nstatic const uint64_t TG_Y[%d][5] = {\n", EXHAUSTIVE_TEST_ORDER);
    for (k = 0; k < EXHAUSTIVE_TEST_ORDER; k++) printf(" {0x%llxULL,0x%llxULL,0x%llxULL,0x%llxULL,0x%llxULL},\n", (unsigned long long)ys[k][0], (unsigned long long)ys[k][1], (unsigned long long)ys[k][2], (unsigned long long)ys[k][3], (unsigned long long)ys[k][4]);
    printf("};\n");
    return 0;
}
