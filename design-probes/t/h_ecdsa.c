#include "cfgt.h"
#include "secp256k1.c"
unsigned char nondet_uchar(void);
static int illegal_count;
static void count_illegal(const char *msg, void *data) { (void)msg; (void)data; illegal_count++; }
void harness_ecdsa(void) {
    secp256k1_context ctx;
    unsigned char sk[32], msg[32];
    secp256k1_ecdsa_signature sig; secp256k1_pubkey pk;
    memset(&ctx, 0, sizeof(ctx)); illegal_count = 0;
    ctx.illegal_callback.fn = count_illegal; ctx.error_callback.fn = count_illegal;
    ctx.hash_ctx.fn_sha256_compression = secp256k1_sha256_transform;
    ctx.ecmult_gen_ctx.built = 1;
    for (int i = 0; i < 30; i++) sk[i] = 0;            /* bound: two symbolic low key bytes */
    if (secp256k1_ec_pubkey_create(&ctx, &pk, sk)) {
        int ok = secp256k1_ecdsa_sign(&ctx, &sig, msg, sk, NULL, NULL);
        __CPROVER_assert(ok, "valid key => sign succeeds (within 3 nonce attempts)");
        __CPROVER_assert(secp256k1_ecdsa_verify(&ctx, &sig, msg, &pk), "sign => verify");
        __CPROVER_assert(illegal_count == 0, "no illegal callback");
#ifdef WITNESS
        __CPROVER_assert(0, "witness");
#endif
    }
}
