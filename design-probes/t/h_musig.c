#include "cfgt2.h"
#include "secp256k1.c"
#include "tg_table.h"
#define N EXHAUSTIVE_TEST_ORDER
typedef unsigned __CPROVER_bitvector[256] bv256;
typedef unsigned __CPROVER_bitvector[512] bv512;
bv256 __CPROVER_uninterpreted_sha256c(bv256 st, bv512 blk);
unsigned char nondet_uchar(void);
/* ---------------- T-model stubs (single TU variant) ---------------- */
void tg_sha_transform_impl(uint32_t* s, const unsigned char* buf) {
    bv256 st = 0; bv512 blk = 0; int i;
    for (i = 0; i < 8; i++) st = (st << 32) | s[i];
    for (i = 0; i < 64; i++) blk = (blk << 8) | buf[i];
    st = __CPROVER_uninterpreted_sha256c(st, blk);
    for (i = 7; i >= 0; i--) { s[i] = (uint32_t)st; st >>= 32; }
}
static int tg_fe_eq(const secp256k1_fe *a, const uint64_t *t) { secp256k1_fe c = *a; int i, e = 1; secp256k1_fe_normalize_var(&c); for (i = 0; i < 5; i++) e &= (c.n[i] == t[i]); return e; }
static unsigned tg_idx(const secp256k1_fe *x, const secp256k1_fe *y, int inf) { unsigned k, r = N; if (inf) return 0; for (k = 1; k < N; k++) if (tg_fe_eq(x, TG_X[k]) && tg_fe_eq(y, TG_Y[k])) r = k; return r; }
static void tg_set(secp256k1_fe *x, secp256k1_fe *y, int *inf, unsigned k) { int i; for (i = 0; i < 5; i++) { x->n[i] = TG_X[k][i]; y->n[i] = TG_Y[k][i]; } *inf = (k == 0); }
static void tg_set_gej(secp256k1_gej *r, unsigned k) { int i; tg_set(&r->x, &r->y, &r->infinity, k); for (i = 0; i < 5; i++) r->z.n[i] = (i == 0); }
static unsigned tg_idx_gej(const secp256k1_gej *a) { unsigned k; static const uint64_t one[5] = {1,0,0,0,0};
    __CPROVER_assert(a->infinity || tg_fe_eq(&a->z, one), "model: gej has z == 1"); k = tg_idx(&a->x, &a->y, a->infinity); __CPROVER_assert(k < N, "model: gej in subgroup table"); return k; }
static unsigned tg_idx_ge(const secp256k1_ge *a) { unsigned k = tg_idx(&a->x, &a->y, a->infinity); __CPROVER_assert(k < N, "model: ge in subgroup table"); return k; }
void tg_ecmult_gen(const secp256k1_ecmult_gen_context *ctx, secp256k1_gej *r, const secp256k1_scalar *gn) { (void)ctx; tg_set_gej(r, *gn % N); }
void tg_ecmult(secp256k1_gej *r, const secp256k1_gej *a, const secp256k1_scalar *na, const secp256k1_scalar *ng) { unsigned ka = tg_idx_gej(a); tg_set_gej(r, (ka * (*na % N) + (ng ? *ng % N : 0)) % N); }
void tg_ge_set_gej(secp256k1_ge *r, secp256k1_gej *a) { tg_set(&r->x, &r->y, &r->infinity, tg_idx_gej(a)); }
void tg_ge_set_gej_var(secp256k1_ge *r, secp256k1_gej *a) { tg_set(&r->x, &r->y, &r->infinity, tg_idx_gej(a)); }
void tg_ge_set_all_gej(secp256k1_ge *r, const secp256k1_gej *a, size_t len) { for (size_t i = 0; i < len; i++) tg_set(&r[i].x, &r[i].y, &r[i].infinity, tg_idx_gej(&a[i])); }
void tg_ge_set_all_gej_var(secp256k1_ge *r, const secp256k1_gej *a, size_t len) { for (size_t i = 0; i < len; i++) tg_set(&r[i].x, &r[i].y, &r[i].infinity, tg_idx_gej(&a[i])); }
void tg_gej_add_ge_var(secp256k1_gej *r, const secp256k1_gej *a, const secp256k1_ge *b, secp256k1_fe *rzr) { __CPROVER_assert(rzr == NULL, "model: rzr unused"); tg_set_gej(r, (tg_idx_gej(a) + tg_idx_ge(b)) % N); }
void tg_gej_add_var(secp256k1_gej *r, const secp256k1_gej *a, const secp256k1_gej *b, secp256k1_fe *rzr) { __CPROVER_assert(rzr == NULL, "model: rzr unused"); tg_set_gej(r, (tg_idx_gej(a) + tg_idx_gej(b)) % N); }
int tg_ecmult_multi_var(const secp256k1_callback* ecb, secp256k1_scratch *scratch, secp256k1_gej *r, const secp256k1_scalar *g_sc, secp256k1_ecmult_multi_callback cb, void *cbdata, size_t n) {
    unsigned acc = g_sc ? *g_sc % N : 0; (void)ecb; (void)scratch;
    for (size_t i = 0; i < n; i++) { secp256k1_scalar sc; secp256k1_ge pt; if (!cb(&sc, &pt, i, cbdata)) return 0; acc = (acc + (sc % N) * tg_idx_ge(&pt)) % N; }
    tg_set_gej(r, acc); return 1;
}
/* ---------------- harness ---------------- */
static int illegal_count;
static void count_illegal(const char *msg, void *data) { (void)msg; (void)data; illegal_count++; }
void harness_musig(void) {
    secp256k1_context ctx; unsigned char sk[2][32], rnd[2][32], msg[32], sig64[64]; int i, j;
    secp256k1_keypair kp[2]; secp256k1_pubkey pk[2]; const secp256k1_pubkey *pkp[2];
    secp256k1_musig_keyagg_cache cache; secp256k1_xonly_pubkey aggpk;
    secp256k1_musig_secnonce sn[2]; secp256k1_musig_pubnonce pn[2]; const secp256k1_musig_pubnonce *pnp[2];
    secp256k1_musig_aggnonce an; secp256k1_musig_session sess; secp256k1_musig_partial_sig ps[2]; const secp256k1_musig_partial_sig *psp[2];
    memset(&ctx, 0, sizeof(ctx)); illegal_count = 0;
    ctx.illegal_callback.fn = count_illegal; ctx.error_callback.fn = count_illegal;
    ctx.hash_ctx.fn_sha256_compression = secp256k1_sha256_transform; ctx.ecmult_gen_ctx.built = 1;
    for (j = 0; j < 2; j++) { for (i = 0; i < 31; i++) sk[j][i] = 0; pkp[j] = &pk[j]; pnp[j] = &pn[j]; psp[j] = &ps[j];
        __CPROVER_assume(secp256k1_keypair_create(&ctx, &kp[j], sk[j])); secp256k1_keypair_pub(&ctx, &pk[j], &kp[j]); }
    __CPROVER_assume(secp256k1_musig_pubkey_agg(&ctx, &aggpk, &cache, pkp, 2));
    for (j = 0; j < 2; j++) __CPROVER_assume(secp256k1_musig_nonce_gen(&ctx, &sn[j], &pn[j], rnd[j], sk[j], &pk[j], msg, &cache, NULL));
    /* degenerate event excluded: a nonce hash that is 0 mod 13 (negligible on secp256k1, guarded only by VERIFY_CHECK) */
    for (j = 0; j < 2; j++) { __CPROVER_assume(!secp256k1_is_zero_array(&pn[j].data[4], 32)); __CPROVER_assume(!secp256k1_is_zero_array(&pn[j].data[68], 32)); }
    __CPROVER_assume(secp256k1_musig_nonce_agg(&ctx, &an, pnp, 2));
    __CPROVER_assume(secp256k1_musig_nonce_process(&ctx, &sess, &an, msg, &cache, NULL));
    for (j = 0; j < 2; j++) {
        __CPROVER_assert(secp256k1_musig_partial_sign(&ctx, &ps[j], &sn[j], &kp[j], &cache, &sess), "honest partial_sign succeeds");
        __CPROVER_assert(secp256k1_musig_partial_sig_verify(&ctx, &ps[j], &pn[j], &pk[j], &cache, &sess), "own partial signature verifies");
    }
    __CPROVER_assert(secp256k1_musig_partial_sig_agg(&ctx, sig64, &sess, psp, 2), "aggregation succeeds");
    __CPROVER_assert(secp256k1_schnorrsig_verify(&ctx, sig64, msg, 32, &aggpk), "aggregate is a valid BIP-340 signature");
    __CPROVER_assert(illegal_count == 0, "no illegal callback");
#ifdef WITNESS
    __CPROVER_assert(0, "witness");
#endif
}
