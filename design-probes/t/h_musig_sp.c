#include "cfgt2.h"
#include "secp256k1.c"
#include "tg_table.h"
#define N EXHAUSTIVE_TEST_ORDER
typedef unsigned __CPROVER_bitvector[256] bv256;
typedef unsigned __CPROVER_bitvector[512] bv512;
bv256 __CPROVER_uninterpreted_sha256c(bv256 st, bv512 blk);
unsigned char nondet_uchar(void);
/* ---------------- T-model stubs (single TU variant) ---------------- */
void tg_sha_transform_impl(uint32_t* s, const unsigned char* buf) {
    bv256 st = 0; bv512 blk = 0; int i;
    for (i = 0; i < 8; i++) st = (st << 32) | s[i];
    for (i = 0; i < 64; i++) blk = (blk << 8) | buf[i];
    st = __CPROVER_uninterpreted_sha256c(st, blk);
    for (i = 7; i >= 0; i--) { s[i] = (uint32_t)st; st >>= 32; }
}
static int tg_fe_eq(const secp256k1_fe *a, const uint64_t *t) { secp256k1_fe c = *a; int i, e = 1; secp256k1_fe_normalize_var(&c); for (i = 0; i < 5; i++) e &= (c.n[i] == t[i]); return e; }
static unsigned tg_idx(const secp256k1_fe *x, const secp256k1_fe *y, int inf) { unsigned k, r = N; if (inf) return 0; for (k = 1; k < N; k++) if (tg_fe_eq(x, TG_X[k]) && tg_fe_eq(y, TG_Y[k])) r = k; return r; }
static void tg_set(secp256k1_fe *x, secp256k1_fe *y, int *inf, unsigned k) { int i; for (i = 0; i < 5; i++) { x->n[i] = TG_X[k][i]; y->n[i] = TG_Y[k][i]; } *inf = (k == 0); }
static void tg_set_gej(secp256k1_gej *r, unsigned k) { int i; tg_set(&r->x, &r->y, &r->infinity, k); for (i = 0; i < 5; i++) r->z.n[i] = (i == 0); }
static unsigned tg_idx_gej(const secp256k1_gej *a) { unsigned k; static const uint64_t one[5] = {1,0,0,0,0};
    __CPROVER_assert(a->infinity || tg_fe_eq(&a->z, one), "model: gej has z == 1"); k = tg_idx(&a->x, &a->y, a->infinity); __CPROVER_assert(k < N, "model: gej in subgroup table"); return k; }
static unsigned tg_idx_ge(const secp256k1_ge *a) { unsigned k = tg_idx(&a->x, &a->y, a->infinity); __CPROVER_assert(k < N, "model: ge in subgroup table"); return k; }
void tg_ecmult_gen(const secp256k1_ecmult_gen_context *ctx, secp256k1_gej *r, const secp256k1_scalar *gn) { (void)ctx; tg_set_gej(r, *gn % N); }
void tg_ecmult(secp256k1_gej *r, const secp256k1_gej *a, const secp256k1_scalar *na, const secp256k1_scalar *ng) { unsigned ka = tg_idx_gej(a); tg_set_gej(r, (ka * (*na % N) + (ng ? *ng % N : 0)) % N); }
void tg_ge_set_gej(secp256k1_ge *r, secp256k1_gej *a) { tg_set(&r->x, &r->y, &r->infinity, tg_idx_gej(a)); }
void tg_ge_set_gej_var(secp256k1_ge *r, secp256k1_gej *a) { tg_set(&r->x, &r->y, &r->infinity, tg_idx_gej(a)); }
void tg_ge_set_all_gej(secp256k1_ge *r, const secp256k1_gej *a, size_t len) { for (size_t i = 0; i < len; i++) tg_set(&r[i].x, &r[i].y, &r[i].infinity, tg_idx_gej(&a[i])); }
void tg_ge_set_all_gej_var(secp256k1_ge *r, const secp256k1_gej *a, size_t len) { for (size_t i = 0; i < len; i++) tg_set(&r[i].x, &r[i].y, &r[i].infinity, tg_idx_gej(&a[i])); }
void tg_gej_add_ge_var(secp256k1_gej *r, const secp256k1_gej *a, const secp256k1_ge *b, secp256k1_fe *rzr) { __CPROVER_assert(rzr == NULL, "model: rzr unused"); tg_set_gej(r, (tg_idx_gej(a) + tg_idx_ge(b)) % N); }
void tg_gej_add_var(secp256k1_gej *r, const secp256k1_gej *a, const secp256k1_gej *b, secp256k1_fe *rzr) { __CPROVER_assert(rzr == NULL, "model: rzr unused"); tg_set_gej(r, (tg_idx_gej(a) + tg_idx_gej(b)) % N); }
int tg_ecmult_multi_var(const secp256k1_callback* ecb, secp256k1_scratch *scratch, secp256k1_gej *r, const secp256k1_scalar *g_sc, secp256k1_ecmult_multi_callback cb, void *cbdata, size_t n) {
    unsigned acc = g_sc ? *g_sc % N : 0; (void)ecb; (void)scratch;
    for (size_t i = 0; i < n; i++) { secp256k1_scalar sc; secp256k1_ge pt; if (!cb(&sc, &pt, i, cbdata)) return 0; acc = (acc + (sc % N) * tg_idx_ge(&pt)) % N; }
    tg_set_gej(r, acc); return 1;
}
/* ---------------- harness: signing phase from arbitrary valid state ---------------- */
static int illegal_count;
static void count_illegal(const char *msg, void *data) { (void)msg; (void)data; illegal_count++; }
unsigned nondet_unsigned(void); int nondet_int(void);
void harness_musig_signphase(void) {
    secp256k1_context ctx; unsigned char sk[32]; int i; secp256k1_keypair kp; secp256k1_pubkey pk; secp256k1_ge pkge;
    secp256k1_musig_keyagg_cache cache; secp256k1_keyagg_cache_internal ci; secp256k1_musig_session sess; secp256k1_musig_session_internal si;
    secp256k1_musig_secnonce sn; secp256k1_musig_pubnonce pn; secp256k1_musig_partial_sig ps; secp256k1_scalar k[2]; secp256k1_ge npts[2]; secp256k1_gej nj; unsigned a, b2;
    memset(&ctx, 0, sizeof(ctx)); illegal_count = 0;
    ctx.illegal_callback.fn = count_illegal; ctx.error_callback.fn = count_illegal;
    ctx.hash_ctx.fn_sha256_compression = secp256k1_sha256_transform; ctx.ecmult_gen_ctx.built = 1;
    for (i = 0; i < 31; i++) sk[i] = 0;
    __CPROVER_assume(secp256k1_keypair_create(&ctx, &kp, sk)); secp256k1_keypair_pub(&ctx, &pk, &kp); secp256k1_pubkey_load(&ctx, &pkge, &pk);
    /* arbitrary valid key-aggregation cache: any finite aggregate key, any second key (possibly none), any hash, parity, tweak */
    a = nondet_unsigned() % N; b2 = nondet_unsigned() % N; __CPROVER_assume(a != 0);
    tg_set(&ci.pk.x, &ci.pk.y, &ci.pk.infinity, a); tg_set(&ci.second_pk.x, &ci.second_pk.y, &ci.second_pk.infinity, b2);
    ci.parity_acc = nondet_int() & 1; ci.tweak = nondet_unsigned() % N; secp256k1_keyagg_cache_save(&cache, &ci);
    /* arbitrary session */
    si.fin_nonce_parity = nondet_int() & 1; si.noncecoef = nondet_unsigned() % N; si.challenge = nondet_unsigned() % N; si.s_part = nondet_unsigned() % N; secp256k1_musig_session_save(&sess, &si);
    /* arbitrary live secret nonce bound to pk, with its public nonce */
    k[0] = nondet_unsigned() % N; k[1] = nondet_unsigned() % N; __CPROVER_assume(k[0] != 0 && k[1] != 0);
    secp256k1_musig_secnonce_save(&sn, k, &pkge);
    for (i = 0; i < 2; i++) { secp256k1_ecmult_gen(&ctx.ecmult_gen_ctx, &nj, &k[i]); secp256k1_ge_set_gej(&npts[i], &nj); }
    secp256k1_musig_pubnonce_save(&pn, npts);
    __CPROVER_assert(secp256k1_musig_partial_sign(&ctx, &ps, &sn, &kp, &cache, &sess), "partial_sign succeeds from any valid state");
    __CPROVER_assert(secp256k1_musig_partial_sig_verify(&ctx, &ps, &pn, &pk, &cache, &sess), "own partial signature verifies in any session");
    __CPROVER_assert(illegal_count == 0, "no illegal callback");
#ifdef WITNESS
    __CPROVER_assert(0, "witness");
#endif
}
