#include "cfgt.h"
#include "secp256k1.c"
unsigned char nondet_uchar(void);
static int illegal_count = 0;
static void count_illegal(const char *msg, void *data) { (void)msg; (void)data; illegal_count++; }
static void havoc(void *p, size_t n) { unsigned char *q = p; for (size_t i = 0; i < n; i++) q[i] = nondet_uchar(); }
void harness_schnorr(void) {
    secp256k1_context ctx;
    unsigned char sk[32], msg[32], aux[32], sig[64];
    secp256k1_keypair kp; secp256k1_xonly_pubkey xpk; int par;
    memset(&ctx, 0, sizeof(ctx));
    ctx.illegal_callback.fn = count_illegal; ctx.error_callback.fn = count_illegal;
    ctx.hash_ctx.fn_sha256_compression = secp256k1_sha256_transform;
    ctx.ecmult_gen_ctx.built = 1;
    havoc(sk, 32); havoc(msg, 32); havoc(aux, 32);
    if (secp256k1_keypair_create(&ctx, &kp, sk)) {
        int ok = secp256k1_schnorrsig_sign32(&ctx, sig, msg, &kp, aux);
        if (ok) {
            __CPROVER_assert(secp256k1_keypair_xonly_pub(&ctx, &xpk, &par, &kp), "xonly");
            __CPROVER_assert(secp256k1_schnorrsig_verify(&ctx, sig, msg, 32, &xpk), "sign => verify");
#ifdef WITNESS
            __CPROVER_assert(0, "witness");
#endif
        }
        __CPROVER_assert(illegal_count == 0, "no illegal callback");
    }
}
