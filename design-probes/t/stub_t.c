#include "cfgt.h"
#define secp256k1_ecmult_gen HIDE_ecmult_gen
#define secp256k1_ecmult HIDE_ecmult
#define secp256k1_ge_set_gej HIDE_ge_set_gej
#define secp256k1_ge_set_gej_var HIDE_ge_set_gej_var
#include "../../../repo/src/util.h"
#include "../../../repo/src/scalar.h"
#include "../../../repo/src/field.h"
#include "../../../repo/src/group.h"
#include "../../../repo/src/ecmult_gen.h"
#include "../../../repo/src/hash.h"
#include "tg_table.h"
#undef secp256k1_ecmult_gen
#undef secp256k1_ecmult
#undef secp256k1_ge_set_gej
#undef secp256k1_ge_set_gej_var
#define N EXHAUSTIVE_TEST_ORDER
typedef unsigned __CPROVER_bitvector[256] bv256;
typedef unsigned __CPROVER_bitvector[512] bv512;
bv256 __CPROVER_uninterpreted_sha256c(bv256 st, bv512 blk);
void secp256k1_sha256_transform_impl(uint32_t* s, const unsigned char* buf) {
    bv256 st = 0; bv512 blk = 0; int i;
    for (i = 0; i < 8; i++) st = (st << 32) | s[i];
    for (i = 0; i < 64; i++) blk = (blk << 8) | buf[i];
    st = __CPROVER_uninterpreted_sha256c(st, blk);
    for (i = 7; i >= 0; i--) { s[i] = (uint32_t)st; st >>= 32; }
}
/* real linear field code, declared here, defined in the library TU */
#include "../../../repo/src/field_impl.h"
static int tg_fe_eq(const secp256k1_fe *a, const uint64_t *t) {
    secp256k1_fe c = *a; int i, e = 1;
    secp256k1_fe_impl_normalize_var(&c);
    for (i = 0; i < 5; i++) e &= (c.n[i] == t[i]);
    return e;
}
static unsigned tg_idx(const secp256k1_fe *x, const secp256k1_fe *y, int inf) {
    unsigned k, r = N; /* N = not in table */
    if (inf) return 0;
    for (k = 1; k < N; k++) if (tg_fe_eq(x, TG_X[k]) && tg_fe_eq(y, TG_Y[k])) r = k;
    return r;
}
static void tg_set(secp256k1_fe *x, secp256k1_fe *y, int *inf, unsigned k) {
    int i; for (i = 0; i < 5; i++) { x->n[i] = TG_X[k][i]; y->n[i] = TG_Y[k][i]; }
    *inf = (k == 0);
}
static void tg_set_gej(secp256k1_gej *r, unsigned k) {
    int i; tg_set(&r->x, &r->y, &r->infinity, k);
    for (i = 0; i < 5; i++) r->z.n[i] = (i == 0);
}
static unsigned tg_idx_gej(const secp256k1_gej *a) {
    unsigned k;
    __CPROVER_assert(a->infinity || tg_fe_eq(&a->z, (const uint64_t[5]){1,0,0,0,0}), "model: gej has z == 1");
    k = tg_idx(&a->x, &a->y, a->infinity);
    __CPROVER_assert(k < N, "model: gej in subgroup table");
    return k;
}
void secp256k1_ecmult_gen(const secp256k1_ecmult_gen_context *ctx, secp256k1_gej *r, const secp256k1_scalar *gn) {
    (void)ctx; tg_set_gej(r, *gn % N);
}
void secp256k1_ecmult(secp256k1_gej *r, const secp256k1_gej *a, const secp256k1_scalar *na, const secp256k1_scalar *ng) {
    unsigned ka = tg_idx_gej(a);
    unsigned k = (ka * (*na % N) + (ng ? *ng % N : 0)) % N;
    tg_set_gej(r, k);
}
void secp256k1_ge_set_gej(secp256k1_ge *r, secp256k1_gej *a) {
    unsigned k = tg_idx_gej(a);
    tg_set(&r->x, &r->y, &r->infinity, k);
}
void secp256k1_ge_set_gej_var(secp256k1_ge *r, secp256k1_gej *a) {
    unsigned k = tg_idx_gej(a);
    tg_set(&r->x, &r->y, &r->infinity, k);
}
