/* C01 (engine W): ECDSA verify / sign logic at real width. Curve results are free values, scalar mul / inverse are
 * uninterpreted functions, so every comparison, gate, negation and hand-over is decided for ALL 256-bit values. */
#include "cfg_full.h"
#include "secp256k1.c"
#include "vcommon.h"
#define W_FIELD_TRANSPARENT
#define W_SCALAR_UF
#define W_SHA_HAVOC
#include "w_stubs.h"

static bvw HALF_N(void) { return verif_N() >> 1; }   /* (n-1)/2 */

/* free curve result: canonical affine coordinates, z = 1, or infinity */
static secp256k1_gej the_R; static int ecmult_calls, ecmult_gen_calls;
static secp256k1_gej rec_a; static secp256k1_scalar rec_na, rec_ng, rec_gn;
static secp256k1_gej free_point(void) {
    secp256k1_gej r; r.x = verif_fe_m1(); r.y = verif_fe_m1(); r.infinity = nondet_int() & 1;
    r.z.n[0] = 1; r.z.n[1] = r.z.n[2] = r.z.n[3] = r.z.n[4] = 0;
    __CPROVER_assume(fe_val(&r.x) < verif_P() && fe_val(&r.y) < verif_P());
    return r;
}
void STUB_secp256k1_ecmult(secp256k1_gej *r, const secp256k1_gej *a, const secp256k1_scalar *na, const secp256k1_scalar *ng) {
    ecmult_calls++; rec_a = *a; rec_na = *na; rec_ng = *ng; *r = the_R;
}
void STUB_secp256k1_ecmult_gen(const secp256k1_ecmult_gen_context *ctx, secp256k1_gej *r, const secp256k1_scalar *gn) {
    (void)ctx; ecmult_gen_calls++; rec_gn = *gn; *r = the_R;
}

typedef struct { secp256k1_ecdsa_signature sig; unsigned char msg[32]; secp256k1_pubkey pk; } ver_in_t;
ver_in_t nondet_ver_in(void);
static bvw st_val(const unsigned char *p) { uint64_t w[4]; bvw v = 0; int i; memcpy(w, p, 32); for (i = 3; i >= 0; i--) v = (v << 64) | w[i]; return v; }

void harness_verify(void) {
    secp256k1_context ctx; ver_in_t in = nondet_ver_in(); int ret; bvw r, s, m, X, px, py; sbv sn;
    verif_ctx_init(&ctx);
    r = st_val(&in.sig.data[0]); s = st_val(&in.sig.data[32]);
    __CPROVER_assume(r < verif_N() && s < verif_N());                 /* signature objects as every parser leaves them */
    px = st_val(&in.pk.data[0]); py = st_val(&in.pk.data[32]);
    __CPROVER_assume(px < verif_P() && py < verif_P());               /* pubkey objects as pubkey_save leaves them */
    the_R = free_point(); X = fe_val(&the_R.x);
    m = be_val(in.msg, 32) % verif_N();
    ret = secp256k1_ecdsa_verify(&ctx, &in.sig, in.msg, &in.pk);
    __CPROVER_assert(ret == (r != 0 && s != 0 && s <= HALF_N() && px != 0 && !the_R.infinity && (X % verif_N()) == r),
                     "ecdsa_verify == (1 <= r < n, 1 <= s <= (n-1)/2, key valid, R finite, x(R) mod n == r)");
    __CPROVER_assert(verif_error_count == 0 && verif_illegal_count == (px == 0 && s <= HALF_N()), "illegal callback only for an invalid (zero) pubkey object");
    if (ecmult_calls) {
        sn = uf_scinv((sbv)s);
        __CPROVER_assert(ecmult_calls == 1, "one multi-multiplication");
        __CPROVER_assert(sc_bv(&rec_na) == uf_scmul(sn, (sbv)r) && sc_bv(&rec_ng) == uf_scmul(sn, (sbv)m), "R = (m/s) G + (r/s) P with m = msg mod n");
        __CPROVER_assert(!rec_a.infinity && fe_val(&rec_a.x) == px && fe_val(&rec_a.y) == py, "P is the supplied public key");
    }
    __CPROVER_assert(!(ret && X >= verif_N()), "witness: accepted through the x(R) = r + n branch");
    __CPROVER_assert(!(ret && X < verif_N()), "witness: accepted through the x(R) = r branch");
    __CPROVER_assert(!(ret && s == HALF_N()), "witness: accepted with s = (n-1)/2");
}

/* ---- signing ---- */
typedef struct { unsigned char key[32], msg[32], extra[32]; int use_custom, null_extra, recid0; } sig_in_t;
sig_in_t nondet_sig_in(void);
#define MAX_ATTEMPTS 2
static int nonce_calls; static unsigned nonce_counter[MAX_ATTEMPTS + 1]; static int nonce_ret[MAX_ATTEMPTS + 1];
static unsigned char nonce_out[MAX_ATTEMPTS + 1][32];
static const unsigned char *exp_msg, *exp_key; static const void *exp_data;
/* an arbitrary (possibly failing) caller nonce function; attempts beyond MAX_ATTEMPTS are outside the bound */
static int custom_nonce(unsigned char *nonce32, const unsigned char *msg32, const unsigned char *key32, const unsigned char *algo16, void *data, unsigned int counter) {
    struct verif_nonce { unsigned char b[32]; } nondet_nonce(void); struct verif_nonce v = nondet_nonce(); int r = nondet_int();
    __CPROVER_assume(nonce_calls < MAX_ATTEMPTS);
    __CPROVER_assert(msg32 == exp_msg && key32 == exp_key && data == exp_data && algo16 == NULL, "nonce callback receives the caller's msg, key and data");
    nonce_counter[nonce_calls] = counter; nonce_ret[nonce_calls] = r; memcpy(nonce_out[nonce_calls], v.b, 32); nonce_calls++;
    memcpy(nonce32, v.b, 32);
    return r;
}
/* default path: record what keys the RFC 6979 generator and bound its use */
static unsigned char rfc_key[112]; static size_t rfc_keylen; static int rfc_inits, rfc_gens;
void STUB_secp256k1_rfc6979_hmac_sha256_initialize(const secp256k1_hash_ctx *hash_ctx, secp256k1_rfc6979_hmac_sha256 *rng, const unsigned char *key, size_t keylen) {
    (void)hash_ctx; (void)rng; __CPROVER_assert(keylen <= 112, "rfc6979 key length"); rfc_keylen = keylen; memcpy(rfc_key, key, 112); rfc_inits++;
}
void STUB_secp256k1_rfc6979_hmac_sha256_generate(const secp256k1_hash_ctx *hash_ctx, secp256k1_rfc6979_hmac_sha256 *rng, unsigned char *out, size_t outlen) {
    struct verif_nonce2 { unsigned char b[32]; } nondet_nonce2(void); struct verif_nonce2 v = nondet_nonce2(); (void)hash_ctx; (void)rng;
    __CPROVER_assume(rfc_gens < 3);   /* attempt 0 draws 1 block, attempt 1 draws 2: bound = 2 attempts */
    __CPROVER_assert(outlen == 32, "32-byte draws"); rfc_gens++; memcpy(out, v.b, 32); memcpy(nonce_out[0], v.b, 32);
}

void harness_sign(void) {
    secp256k1_context ctx; sig_in_t in = nondet_sig_in(); secp256k1_ecdsa_signature sig; unsigned char c64[64]; int ret; bvw d, m, r, s, X, k; int i, last;
    verif_ctx_init(&ctx);
    the_R = free_point(); X = fe_val(&the_R.x);
    exp_msg = in.msg; exp_key = in.key; exp_data = in.null_extra ? NULL : in.extra;
    memset(&sig, 0xA5, sizeof(sig));
    ret = secp256k1_ecdsa_sign(&ctx, &sig, in.msg, in.key, in.use_custom ? custom_nonce : NULL, exp_data);
    secp256k1_ecdsa_signature_serialize_compact(&ctx, c64, &sig);
    d = be_val(in.key, 32); m = be_val(in.msg, 32) % verif_N(); r = be_val(c64, 32); s = be_val(c64 + 32, 32);
    __CPROVER_assert(ret == 0 || ret == 1, "boolean result");
    __CPROVER_assert(verif_illegal_count == 0 && verif_error_count == 0, "no callbacks");
    if (d == 0 || d >= verif_N()) __CPROVER_assert(ret == 0, "invalid secret key (0 or >= n) => failure");
    if (!ret) __CPROVER_assert(r == 0 && s == 0, "failure => all-zero signature");
    if (in.use_custom) {
        last = nonce_calls - 1;
        __CPROVER_assert(nonce_calls >= 1, "nonce function consulted");
        for (i = 0; i < MAX_ATTEMPTS; i++) if (i < nonce_calls) __CPROVER_assert(nonce_counter[i] == (unsigned)i, "attempt counter increments from 0");
        if (!nonce_ret[last]) __CPROVER_assert(ret == 0, "failing nonce callback => failure");
    } else {
        __CPROVER_assert(rfc_inits >= 1 && rfc_keylen == (in.null_extra ? 64u : 96u), "RFC 6979 keyed with 64 (+32) bytes");
        __CPROVER_assert(memcmp(rfc_key, in.key, 32) == 0, "RFC 6979 key data starts with the secret key");
        __CPROVER_assert(be_val(rfc_key + 32, 32) == m, "RFC 6979 key data carries msg mod n (not the raw message)");
        if (!in.null_extra) __CPROVER_assert(memcmp(rfc_key + 64, in.extra, 32) == 0, "RFC 6979 key data carries the extra entropy");
    }
    if (ret) {
        sbv kk, nn, s0;
        last = in.use_custom ? nonce_calls - 1 : 0;
        k = be_val(nonce_out[last], 32);
        __CPROVER_assert(d != 0 && d < verif_N(), "success => valid key");
        __CPROVER_assert(r != 0 && s != 0 && s <= HALF_N(), "success => r, s non-zero and s low");
        __CPROVER_assert(k != 0 && k < verif_N(), "success => the used nonce was a valid scalar");
        __CPROVER_assert(sc_bv(&rec_gn) == (sbv)k, "R = k G for the nonce the nonce function returned");
        __CPROVER_assert(r == X % verif_N(), "r == x(R) mod n");
        kk = uf_scinv((sbv)k); nn = uf_scmul((sbv)r, (sbv)d);
        { bvw t = ((bvw)nn + m) % verif_N(); s0 = uf_scmul(kk, (sbv)t); }
        __CPROVER_assert(s == ((bvw)s0 > HALF_N() ? verif_N() - (bvw)s0 : (bvw)s0), "s == low-S form of k^-1 (m + r d)");
        __CPROVER_assert(X < verif_N(), "witness: success with x(R) >= n"); __CPROVER_assert(in.use_custom, "witness: success on the RFC 6979 path");
        __CPROVER_assert(!(in.use_custom && nonce_calls == 2), "witness: success on the second attempt");
        __CPROVER_assert(be_val(in.msg, 32) < verif_N(), "witness: success with msg >= n");
    }
}

/* recoverable signing: same core, plus the recovery id */
void harness_sign_recoverable(void) {
    secp256k1_context ctx; sig_in_t in = nondet_sig_in(); secp256k1_ecdsa_recoverable_signature sig; unsigned char c64[64]; int ret, recid = 77; bvw d, r, s, X; sbv s0, kk, nn; bvw m, k;
    verif_ctx_init(&ctx);
    the_R = free_point(); X = fe_val(&the_R.x);
    exp_msg = in.msg; exp_key = in.key; exp_data = in.null_extra ? NULL : in.extra;
    memset(&sig, 0xA5, sizeof(sig));
    ret = secp256k1_ecdsa_sign_recoverable(&ctx, &sig, in.msg, in.key, custom_nonce, exp_data);
    secp256k1_ecdsa_recoverable_signature_serialize_compact(&ctx, c64, &recid, &sig);
    d = be_val(in.key, 32); m = be_val(in.msg, 32) % verif_N(); r = be_val(c64, 32); s = be_val(c64 + 32, 32);
    if (d == 0 || d >= verif_N() || !nonce_ret[nonce_calls - 1]) __CPROVER_assert(ret == 0, "invalid key or failing nonce callback => failure");
    if (!ret) __CPROVER_assert(r == 0 && s == 0 && recid == 0, "failure => all-zero signature and recid 0");
    if (ret) {
        k = be_val(nonce_out[nonce_calls - 1], 32);
        kk = uf_scinv((sbv)k); nn = uf_scmul((sbv)r, (sbv)d);
        { bvw t = ((bvw)nn + m) % verif_N(); s0 = uf_scmul(kk, (sbv)t); }
        __CPROVER_assert(r == X % verif_N() && s <= HALF_N() && s != 0 && r != 0, "success => r = x(R) mod n, low non-zero s");
        __CPROVER_assert(recid == ((((X >= verif_N()) ? 2 : 0) | (int)(fe_val(&the_R.y) & 1)) ^ ((bvw)s0 > HALF_N() ? 1 : 0)),
                         "recid == (x(R) >= n) << 1 | parity(y(R)), flipped when s was negated");
        __CPROVER_assert(recid < 2, "witness: recid with overflow bit"); __CPROVER_assert(!((bvw)s0 > HALF_N()), "witness: negated s");
    }
}

/* ---- public-key recovery: x reconstruction (r or r + n, only when r < p - n), parity, Q = r^-1 (s R - m G), failure set ---- */
#ifdef RECOVER
static secp256k1_fe lift_x; static int lift_odd, lift_calls, lift_ret; static secp256k1_fe lift_y;
int STUB_secp256k1_ge_set_xo_var(secp256k1_ge *r, const secp256k1_fe *x, int odd) {
    lift_calls++; lift_x = *x; lift_odd = odd; lift_y = verif_fe_m1(); __CPROVER_assume(fe_val(&lift_y) < verif_P());
    r->x = *x; r->y = lift_y; r->infinity = 0; lift_ret = nondet_int() & 1; return lift_ret;
}
typedef struct { secp256k1_scalar r, s, m; int recid; } rec_in_t; rec_in_t nondet_rec_in(void);
void harness_recover(void) {
    rec_in_t in = nondet_rec_in(); secp256k1_ge pk; int ret; bvw r, s, m, N = verif_N(), P = verif_P(), x, rinv;
    __CPROVER_assume(!secp256k1_scalar_check_overflow(&in.r) && !secp256k1_scalar_check_overflow(&in.s) && !secp256k1_scalar_check_overflow(&in.m) && in.recid >= 0 && in.recid <= 3);
    r = sc_val(&in.r); s = sc_val(&in.s); m = sc_val(&in.m); the_R = free_point();
    ret = secp256k1_ecdsa_sig_recover(&in.r, &in.s, &pk, &in.m, in.recid);
    if (r == 0 || s == 0) { __CPROVER_assert(ret == 0 && lift_calls == 0 && ecmult_calls == 0, "zero r or s: no key recovered"); return; }
    if ((in.recid & 2) && r >= P - N) { __CPROVER_assert(ret == 0 && lift_calls == 0, "recid bit 1 with r >= p - n (r + n would not be a field element): rejected"); return; }
    x = (in.recid & 2) ? r + N : r;
    __CPROVER_assert(lift_calls == 1 && fe_cval(&lift_x) == x && lift_odd == (in.recid & 1), "R is lifted from x = r (+ n iff recid bit 1) with the parity given by recid bit 0");
    if (!lift_ret) { __CPROVER_assert(ret == 0 && ecmult_calls == 0, "x not on the curve: rejected"); return; }
    rinv = (bvw)uf_scinv((sbv)r);
    __CPROVER_assert(ecmult_calls == 1 && !rec_a.infinity && fe_cval(&rec_a.x) == x && fe_val(&rec_a.y) == fe_val(&lift_y) && fe_val(&rec_a.z) == 1, "the multiplication is on the lifted point R");
    __CPROVER_assert((bvw)sc_bv(&rec_na) == (bvw)uf_scmul((sbv)rinv, (sbv)s) && (bvw)sc_bv(&rec_ng) == negN((bvw)uf_scmul((sbv)rinv, (sbv)m)), "Q = (r^-1 s) R + (-(r^-1 m)) G");
    __CPROVER_assert(ret == !the_R.infinity, "recovery succeeds exactly when Q is finite");
    if (ret) __CPROVER_assert(fe_val(&pk.x) == fe_val(&the_R.x) && fe_val(&pk.y) == fe_val(&the_R.y) && !pk.infinity, "recovered key is Q");
    __CPROVER_assert(!(ret && (in.recid & 2)), "witness: recovery with r + n"); __CPROVER_assert(!ret, "witness: recovery succeeds");
}
#endif
