/* C02 (engine W): BIP-340 verify / sign at real width against a reference written from the BIP:
 * curve results are free values, scalar mul is an uninterpreted function, SHA-256 compression is an uninterpreted
 * function shared by library code and reference (so byte layout, lengths, tags-as-midstates, negations, range checks
 * and failure masking are decided for all inputs). */
#include "cfg_full.h"
#include "secp256k1.c"
#include "vcommon.h"
#define W_FIELD_TRANSPARENT
#define W_SCALAR_UF
#define W_SHA_UF
#include "w_stubs.h"
#ifndef MSGLEN
#define MSGLEN 32
#endif
#define REF_SHA_MAX (MSGLEN + 64)
#include "ref_sha.h"

static secp256k1_gej the_R; static int ecmult_calls, ecmult_gen_calls;
static secp256k1_gej rec_a; static secp256k1_scalar rec_na, rec_ng, rec_gn;
static secp256k1_gej free_point(void) {
    secp256k1_gej r; r.x = verif_fe_m1(); r.y = verif_fe_m1(); r.infinity = nondet_int() & 1;
    r.z.n[0] = 1; r.z.n[1] = r.z.n[2] = r.z.n[3] = r.z.n[4] = 0;
    __CPROVER_assume(fe_val(&r.x) < verif_P() && fe_val(&r.y) < verif_P());
    return r;
}
void STUB_secp256k1_ecmult(secp256k1_gej *r, const secp256k1_gej *a, const secp256k1_scalar *na, const secp256k1_scalar *ng) { ecmult_calls++; rec_a = *a; rec_na = *na; rec_ng = *ng; *r = the_R; }
void STUB_secp256k1_ecmult_gen(const secp256k1_ecmult_gen_context *ctx, secp256k1_gej *r, const secp256k1_scalar *gn) { (void)ctx; ecmult_gen_calls++; rec_gn = *gn; *r = the_R; }
static bvw st_val(const unsigned char *p) { uint64_t w[4]; bvw v = 0; int i; memcpy(w, p, 32); for (i = 3; i >= 0; i--) v = (v << 64) | w[i]; return v; }
static void be32_of(unsigned char *o, bvw v) { int i; for (i = 31; i >= 0; i--) { o[i] = (unsigned char)v; v >>= 8; } }

/* reference challenge: tagged hash (library midstate, proved equal to the from-scratch tag hash in query "midstates") */
static bvw ref_challenge(const unsigned char *r32, const unsigned char *pk32, const unsigned char *msg, size_t len) {
    unsigned char cat[64 + MSGLEN + 1], h[32]; secp256k1_sha256 t;
    memcpy(cat, r32, 32); memcpy(cat + 32, pk32, 32); if (len) memcpy(cat + 64, msg, len);
    secp256k1_schnorrsig_sha256_tagged(&t);
    ref_sha256_from(t.s, 64, cat, 64 + len, h);
    return be_val(h, 32) % verif_N();
}

typedef struct { unsigned char sig[64], msg[MSGLEN + 1]; secp256k1_xonly_pubkey pk; secp256k1_keypair kp; unsigned char aux[32]; int null_aux, mode; } in_t;
in_t nondet_in(void);

void harness_verify(void) {
    secp256k1_context ctx; in_t in = nondet_in(); int ret; bvw rx, s, px, py, e, X; unsigned char pk32[32];
    verif_ctx_init(&ctx);
    rx = be_val(in.sig, 32); s = be_val(in.sig + 32, 32);
    px = st_val(&in.pk.data[0]); py = st_val(&in.pk.data[32]);
    __CPROVER_assume(px < verif_P() && py < verif_P());         /* x-only key objects as the library leaves them */
    the_R = free_point(); X = fe_val(&the_R.x);
    ret = secp256k1_schnorrsig_verify(&ctx, in.sig, in.msg, MSGLEN, &in.pk);
    __CPROVER_assert(ret == (rx < verif_P() && s < verif_N() && px != 0 && !the_R.infinity && (fe_val(&the_R.y) & 1) == 0 && X == rx),
                     "schnorrsig_verify == (r < p, s < n, key valid, R finite, even y(R), x(R) == r)");
    if (ecmult_calls) {
        be32_of(pk32, px); e = ref_challenge(in.sig, pk32, in.msg, MSGLEN);
        __CPROVER_assert(ecmult_calls == 1 && (bvw)sc_bv(&rec_ng) == s && (bvw)sc_bv(&rec_na) == (e == 0 ? 0 : verif_N() - e), "R = s G - e P with e = H_challenge(r || pk || msg) mod n");
        __CPROVER_assert(!rec_a.infinity && fe_val(&rec_a.x) == px && fe_val(&rec_a.y) == py, "P is the supplied x-only key");
    }
    __CPROVER_assert(verif_error_count == 0 && verif_illegal_count == (rx < verif_P() && s < verif_N() && px == 0), "illegal callback only for an invalid key object");
    __CPROVER_assert(!ret, "witness: acceptance reachable");
}

/* arbitrary caller nonce function */
static int nf_ret; static unsigned char nf_out[32]; static int nf_calls;
static const unsigned char *exp_msg; static size_t exp_len; static void *exp_data;
static unsigned char nf_key[32], nf_pk[32];
static int custom_nonce(unsigned char *nonce32, const unsigned char *msg, size_t msglen, const unsigned char *key32, const unsigned char *xonly_pk32, const unsigned char *algo, size_t algolen, void *data) {
    struct verif_nonce { unsigned char b[32]; } nondet_nonce(void); struct verif_nonce v = nondet_nonce();
    __CPROVER_assert(msg == exp_msg && msglen == exp_len && data == exp_data, "nonce callback receives the caller's message and data");
    __CPROVER_assert(algolen == 13 && memcmp(algo, "BIP0340/nonce", 13) == 0, "nonce callback receives the BIP-340 algo tag");
    memcpy(nf_key, key32, 32); memcpy(nf_pk, xonly_pk32, 32);
    nf_calls++; nf_ret = nondet_int(); memcpy(nf_out, v.b, 32); memcpy(nonce32, v.b, 32);
    return nf_ret;
}

/* mode 0: sign32 (default nonce), 1: sign_custom(extraparams = NULL), 2: sign_custom(default noncefp, ndata), 3: sign_custom(custom nonce function) */
void harness_sign(void) {
    secp256k1_context ctx; in_t in = nondet_in(); unsigned char sig[64], pk32[32], dneg[32], cat[96 + MSGLEN], h[32], t32[32]; int ret, i; bvw d, px, py, X, k, e, dd, kk, s; secp256k1_schnorrsig_extraparams ep = SECP256K1_SCHNORRSIG_EXTRAPARAMS_INIT;
    secp256k1_sha256 t; int keyok, mode; unsigned char *aux;
#ifdef MODE
    in.mode = MODE;             /* entry-point class (assigned) */
#endif
#ifdef NULLAUX
    in.null_aux = NULLAUX;
#endif
    mode = in.mode & 3; aux = in.null_aux ? NULL : in.aux;
    verif_ctx_init(&ctx);
    d = be_val(&in.kp.data[0], 32); px = st_val(&in.kp.data[32]); py = st_val(&in.kp.data[64]);
    __CPROVER_assume(px < verif_P() && py < verif_P());
    the_R = free_point(); X = fe_val(&the_R.x);
    memset(sig, 0xA5, 64);
    exp_msg = in.msg; exp_len = MSGLEN; exp_data = aux;
#if MSGLEN == 32
    if (mode == 0) ret = secp256k1_schnorrsig_sign32(&ctx, sig, in.msg, &in.kp, aux); else
#else
    __CPROVER_assume(mode != 0);
#endif
    if (mode == 1) { aux = NULL; exp_data = NULL; ret = secp256k1_schnorrsig_sign_custom(&ctx, sig, in.msg, MSGLEN, &in.kp, NULL); }
    else if (mode == 2) { ep.noncefp = in.null_aux ? NULL : secp256k1_nonce_function_bip340; ep.ndata = aux; ret = secp256k1_schnorrsig_sign_custom(&ctx, sig, in.msg, MSGLEN, &in.kp, &ep); }
    else { ep.noncefp = custom_nonce; ep.ndata = aux; ret = secp256k1_schnorrsig_sign_custom(&ctx, sig, in.msg, MSGLEN, &in.kp, &ep); }
    keyok = (px != 0 && d != 0 && d < verif_N());
    __CPROVER_assert(ret == 0 || ret == 1, "boolean result");
    if (!keyok) __CPROVER_assert(ret == 0 && verif_illegal_count == 1, "invalid keypair => failure through the illegal callback");
    if (!ret) __CPROVER_assert(verif_allzero(sig, 64), "failure => all-zero signature");
    /* the secret handed to nonce derivation and used for signing: d if y(P) even, n - d otherwise */
    dd = keyok ? ((py & 1) ? verif_N() - d : d) : 1;
    be32_of(pk32, keyok ? px : fe_val(&secp256k1_ge_const_g.x)); be32_of(dneg, dd);
    if (mode == 3) {
        __CPROVER_assert(nf_calls == 1 && memcmp(nf_key, dneg, 32) == 0 && memcmp(nf_pk, pk32, 32) == 0, "nonce callback receives the parity-adjusted secret and the x-only key");
        if (!nf_ret) __CPROVER_assert(ret == 0, "failing nonce callback => failure");
        k = be_val(nf_out, 32) % verif_N();
    } else {
        /* BIP-340 default nonce: t = d' xor H_aux(aux or 0^32); rand = H_nonce(t || pk || msg); k = rand mod n */
        /* TaggedHash("BIP0340/aux", 0^32) with the REAL SHA-256 (re-derived concretely in C05's midstate query): an absent aux is 32 zero bytes */
        static const unsigned char H_AUX_ZERO[32] = {84, 241, 105, 207, 201, 226, 229, 114, 116, 128, 68, 31, 144, 186, 37, 196, 136, 244, 97, 199, 11, 94, 165, 220, 170, 247, 175, 105, 39, 10, 165, 20};
        if (aux) { secp256k1_nonce_function_bip340_sha256_tagged_aux(&t); ref_sha256_from(t.s, 64, aux, 32, h); } else memcpy(h, H_AUX_ZERO, 32);
        for (i = 0; i < 32; i++) t32[i] = dneg[i] ^ h[i];
        memcpy(cat, t32, 32); memcpy(cat + 32, pk32, 32); memcpy(cat + 64, in.msg, MSGLEN);
        secp256k1_nonce_function_bip340_sha256_tagged(&t); ref_sha256_from(t.s, 64, cat, 64 + MSGLEN, h);
        k = be_val(h, 32) % verif_N();
    }
    if (k == 0) __CPROVER_assert(ret == 0, "zero nonce => failure");
    if (keyok && k != 0 && (mode != 3 || nf_ret)) __CPROVER_assert(ret == 1, "valid keypair and non-zero nonce => success");
    if (ret) {
        __CPROVER_assert((bvw)sc_bv(&rec_gn) == k, "R = k G for the BIP-340 nonce");
        __CPROVER_assert(be_val(sig, 32) == X, "sig[0..32) == x(R)");
        e = ref_challenge(sig, pk32, in.msg, MSGLEN);
        kk = (fe_val(&the_R.y) & 1) ? verif_N() - k : k;
        s = ((bvw)uf_scmul((sbv)e, (sbv)dd) + kk) % verif_N();
        __CPROVER_assert(be_val(sig + 32, 32) == s, "sig[32..64) == (k' + e d') mod n with BIP-340 negations");
        __CPROVER_assert(!((py & 1) && (fe_val(&the_R.y) & 1)), "witness: success with odd-y key and odd-y nonce");
    }
    __CPROVER_assert(verif_error_count == 0, "no error callback");
}

/* extraparams magic */
void harness_magic(void) {
    secp256k1_context ctx; in_t in = nondet_in(); unsigned char sig[64]; secp256k1_schnorrsig_extraparams ep; struct epw { secp256k1_schnorrsig_extraparams e; } nondet_ep(void); int ret;
    verif_ctx_init(&ctx); ep = nondet_ep().e; ep.noncefp = NULL; ep.ndata = NULL;
    __CPROVER_assume(memcmp(ep.magic, "\xda\x6f\xb3\x8c", 4) != 0);
    ret = secp256k1_schnorrsig_sign_custom(&ctx, sig, in.msg, MSGLEN, &in.kp, &ep);
    __CPROVER_assert(ret == 0 && verif_illegal_count == 1, "wrong extraparams magic => illegal callback, failure");
    __CPROVER_assert(ep.magic[0] != 0xda, "witness: near-miss magic");
}
