/* C03 (engine B): DER / compact ECDSA signature codecs, bit-precise, no abstraction. */
#include "cfg_full.h"
#include "secp256k1.c"
#include "vcommon.h"

#ifndef MAXLEN
#define MAXLEN 74
#endif
typedef struct { unsigned char in[MAXLEN]; size_t len; } der_in_t;
der_in_t nondet_der_in(void);

/* ---- independent reference: strict DER for SEQUENCE { INTEGER r, INTEGER s }, inputs shorter than 256 bytes.
 * Written over indices (the library works on pointers) from X.690: definite minimal lengths, minimal integers.
 * Returns 0 = reject; 1 = accept.  *ov_r / *ov_s: integer negative, longer than 32 bytes or >= n  => value 0. */
static int ref_len(const unsigned char *in, size_t n, size_t *pos, size_t *out) {
    unsigned char b;
    if (*pos >= n) return 0;
    b = in[(*pos)++];
    if (b < 0x80) { *out = b; return 1; }
    if (b == 0x81) {                      /* one length octet, must encode >= 128 to be minimal */
        if (*pos >= n) return 0;
        *out = in[(*pos)++];
        return *out >= 128;
    }
    return 0;                             /* 0x80 indefinite, 0xFF reserved, 0x82.. => length >= 256 > input */
}
static int ref_int(const unsigned char *in, size_t n, size_t *pos, unsigned char *v32, int *ov) {
    size_t l, i, skip = 0;
    memset(v32, 0, 32); *ov = 0;
    if (*pos >= n || in[*pos] != 0x02) return 0;
    (*pos)++;
    if (!ref_len(in, n, pos, &l)) return 0;
    if (l == 0 || l > n - *pos) return 0;
    if (l > 1 && in[*pos] == 0x00 && !(in[*pos + 1] & 0x80)) return 0;
    if (l > 1 && in[*pos] == 0xFF && (in[*pos + 1] & 0x80)) return 0;
    if (in[*pos] & 0x80) *ov = 1;
    if (in[*pos] == 0x00) skip = 1;
    if (l - skip > 32) *ov = 1;
    if (!*ov) {
        /* value of in[pos+skip .. pos+l) -- written with constant indices only (symbolic-index stores are what makes SAT slow) */
        bvw val = 0; size_t a = *pos + skip, e = *pos + l;
        for (i = 0; i < MAXLEN; i++) if (i >= a && i < e) val = (val << 8) | in[i];
        if (val >= verif_N()) *ov = 1;
        else for (i = 0; i < 32; i++) { v32[31 - i] = (unsigned char)val; val >>= 8; }
    }
    if (*ov) memset(v32, 0, 32);
    *pos += l;
    return 1;
}
static int ref_der(const unsigned char *in, size_t n, unsigned char *r32, unsigned char *s32, int *ovr, int *ovs) {
    size_t pos = 0, l;
    if (n == 0 || in[pos++] != 0x30) return 0;
    if (!ref_len(in, n, &pos, &l)) return 0;
    if (l != n - pos) return 0;
    if (!ref_int(in, n, &pos, r32, ovr)) return 0;
    if (!ref_int(in, n, &pos, s32, ovs)) return 0;
    return pos == n;
}

/* parse_der: accepts exactly the reference language, yields the reference (r,s), zeroes on failure, round-trips */
void harness_der_parse(void) {
    secp256k1_context ctx; der_in_t in = nondet_der_in(); secp256k1_ecdsa_signature sig, z; unsigned char r32[32], s32[32], c64[64], out[MAXLEN + 8];
    int ovr = 0, ovs = 0, lib, ref; size_t outlen = sizeof(out), i;
    verif_ctx_init(&ctx);
#ifdef FIXLEN
    in.len = FIXLEN;                       /* length class (assigned): all contents of exactly this length */
#endif
    __CPROVER_assume(in.len <= MAXLEN);
    memset(&sig, 0xA5, sizeof(sig)); memset(&z, 0, sizeof(z));
    lib = secp256k1_ecdsa_signature_parse_der(&ctx, &sig, in.in, in.len);
    ref = ref_der(in.in, in.len, r32, s32, &ovr, &ovs);
    __CPROVER_assert(lib == ref, "parse_der accepts exactly the strict-DER reference language");
    __CPROVER_assert(verif_illegal_count == 0 && verif_error_count == 0, "no callbacks");
    if (!lib) {
        __CPROVER_assert(memcmp(&sig, &z, sizeof(sig)) == 0, "failed DER parse leaves an all-zero signature object");
    } else {
        secp256k1_ecdsa_signature_serialize_compact(&ctx, c64, &sig);
        __CPROVER_assert(memcmp(c64, r32, 32) == 0 && memcmp(c64 + 32, s32, 32) == 0, "parsed (r,s) equal the reference values (out-of-range integers become 0)");
        if (!ovr && !ovs) {
            int ok = secp256k1_ecdsa_signature_serialize_der(&ctx, out, &outlen, &sig);
            __CPROVER_assert(ok && outlen == in.len, "serialize_der of a parsed in-range signature has the input length");
            for (i = 0; i < MAXLEN; i++) if (i < in.len) __CPROVER_assert(out[i] == in.in[i], "serialize_der reproduces the accepted bytes");
#ifndef FIXLEN
            __CPROVER_assert(in.len != (MAXLEN < 72 ? MAXLEN : 72), "witness: longest in-range encoding within the bound accepted");
#elif FIXLEN >= 8 && FIXLEN <= 72
            __CPROVER_assert(0, "witness: in-range signature of this length accepted");
#endif
        }
#if defined(FIXLEN) && FIXLEN > 72
        __CPROVER_assert(0, "witness: an over-long encoding is accepted (with out-of-range integers read as 0)");
#endif
    }
}

/* serialize_der: size negotiation for all (r,s) and all buffer lengths; parse(serialize) == identity */
typedef struct { unsigned char c64[64]; size_t outlen; } ser_in_t;
ser_in_t nondet_ser_in(void);
static size_t ref_intlen(const unsigned char *v32) { size_t n = 32; while (n > 1 && v32[32 - n] == 0) n--; return n + ((v32[32 - n] & 0x80) ? 1 : 0); }
void harness_der_serialize(void) {
    secp256k1_context ctx; ser_in_t in = nondet_ser_in(); secp256k1_ecdsa_signature sig; unsigned char out[80]; size_t need, ol, i; int ret;
    verif_ctx_init(&ctx);
    __CPROVER_assume(in.outlen <= 80);
    __CPROVER_assume(secp256k1_ecdsa_signature_parse_compact(&ctx, &sig, in.c64));
    memset(out, 0xA5, sizeof(out));
    ol = in.outlen;
    ret = secp256k1_ecdsa_signature_serialize_der(&ctx, out, &ol, &sig);
    need = 6 + ref_intlen(in.c64) + ref_intlen(in.c64 + 32);
    __CPROVER_assert(ol == need, "serialize_der always reports the minimal needed size");
    __CPROVER_assert(ret == (in.outlen >= need), "serialize_der succeeds exactly when the buffer holds the minimal encoding");
    for (i = 0; i < 80; i++) if (i >= (ret ? need : 0)) __CPROVER_assert(out[i] == 0xA5, "serialize_der writes nothing beyond the encoding (nothing at all on failure)");
    __CPROVER_assert(verif_illegal_count == 0, "no illegal callback");
    __CPROVER_assert(!(!ret && in.outlen == need - 1), "witness: buffer one byte too small");
}
void harness_der_reparse(void) {
    secp256k1_context ctx; ser_in_t in = nondet_ser_in(); secp256k1_ecdsa_signature sig, sig2; unsigned char out[80], c2[64]; size_t ol = 80;
    verif_ctx_init(&ctx);
    __CPROVER_assume(secp256k1_ecdsa_signature_parse_compact(&ctx, &sig, in.c64));
    __CPROVER_assert(secp256k1_ecdsa_signature_serialize_der(&ctx, out, &ol, &sig), "serialize_der succeeds with an 80-byte buffer");
    __CPROVER_assert(secp256k1_ecdsa_signature_parse_der(&ctx, &sig2, out, ol), "parse_der accepts every serialization");
    secp256k1_ecdsa_signature_serialize_compact(&ctx, c2, &sig2);
    __CPROVER_assert(memcmp(c2, in.c64, 64) == 0, "parse_der(serialize_der(sig)) == sig");
    __CPROVER_assert(ol != 72, "witness: 72-byte encoding");
}

/* compact codec */
void harness_compact(void) {
    secp256k1_context ctx; ser_in_t in = nondet_ser_in(); secp256k1_ecdsa_signature sig, z; unsigned char c2[64]; int ret;
    verif_ctx_init(&ctx); memset(&z, 0, sizeof(z)); memset(&sig, 0xA5, sizeof(sig));
    ret = secp256k1_ecdsa_signature_parse_compact(&ctx, &sig, in.c64);
    __CPROVER_assert(ret == (be_val(in.c64, 32) < verif_N() && be_val(in.c64 + 32, 32) < verif_N()), "parse_compact accepts exactly r < n and s < n");
    if (ret) {
        secp256k1_ecdsa_signature_serialize_compact(&ctx, c2, &sig);
        __CPROVER_assert(memcmp(c2, in.c64, 64) == 0, "serialize_compact(parse_compact(x)) == x");
        __CPROVER_assert(0, "witness: compact accepted");
    } else {
        __CPROVER_assert(memcmp(&sig, &z, sizeof(sig)) == 0, "rejected compact parse leaves an all-zero signature object");
        __CPROVER_assert(be_val(in.c64, 32) < verif_N(), "witness: rejected because of s alone");
    }
}
