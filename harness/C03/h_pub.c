/* C03 (engine W): public key codecs. Byte/limb logic is the real code; "on the curve" is an opaque predicate whose
 * answer the harness records, so acceptance is shown to depend on it. */
#include "cfg_full.h"
#include "secp256k1.c"
#include "vcommon.h"
#define W_FIELD_NOSQRT
/* field kernels opaque, but recorded: */
static int sqrt_calls, sqrt_ret, valid_calls, valid_ret;
void STUB_secp256k1_fe_impl_mul(secp256k1_fe *r, const secp256k1_fe *a, const secp256k1_fe * SECP256K1_RESTRICT b) { (void)a; (void)b; *r = verif_fe_m1(); }
void STUB_secp256k1_fe_impl_sqr(secp256k1_fe *r, const secp256k1_fe *a) { (void)a; *r = verif_fe_m1(); }
/* Curve facts assumed (secp256k1 has no point with y = 0 and none with x = 0): a successful root is non-zero mod p,
 * and the harness never lets x = 0 be on the curve (see on_curve_x0 below). */
static int x_is_zero_flag;
int STUB_secp256k1_fe_sqrt(secp256k1_fe * SECP256K1_RESTRICT r, const secp256k1_fe * SECP256K1_RESTRICT a) {
    (void)a; *r = verif_fe_m1(); sqrt_calls++; sqrt_ret = nondet_int() & 1;
    __CPROVER_assume(fe_val(r) % verif_P() != 0);
    if (x_is_zero_flag) sqrt_ret = 0;
    return sqrt_ret;
}
int STUB_secp256k1_ge_is_valid_var(const secp256k1_ge *a) { (void)a; valid_calls++; valid_ret = nondet_int() & 1; if (x_is_zero_flag) valid_ret = 0; return valid_ret; }

typedef struct { unsigned char in[80]; size_t len; } pk_in_t;
pk_in_t nondet_pk_in(void);

void harness_pubkey_parse(void) {
    secp256k1_context ctx; pk_in_t in = nondet_pk_in(); secp256k1_pubkey pk, z; unsigned char o33[33], o65[65]; size_t ol; int ret, s; bvw x, y;
    verif_ctx_init(&ctx); memset(&z, 0, sizeof(z)); memset(&pk, 0xA5, sizeof(pk));
    __CPROVER_assume(in.len <= 80);
    x = be_val(in.in + 1, 32); y = be_val(in.in + 33, 32);
    x_is_zero_flag = (x == 0);
    ret = secp256k1_ec_pubkey_parse(&ctx, &pk, in.in, in.len);
    s = (in.len == 33 && (in.in[0] == 2 || in.in[0] == 3) && x < verif_P() && sqrt_calls == 1 && sqrt_ret == 1) ||
        (in.len == 65 && (in.in[0] == 4 || in.in[0] == 6 || in.in[0] == 7) && x < verif_P() && y < verif_P() &&
         (in.in[0] == 4 || (int)(in.in[65 - 1] & 1) == (in.in[0] == 7)) && valid_calls == 1 && valid_ret == 1);
    __CPROVER_assert(ret == s, "pubkey_parse accepts exactly: right length+prefix, x,y < p, hybrid parity, and the on-curve predicate said yes");
    __CPROVER_assert(verif_illegal_count == 0 && verif_error_count == 0, "no callbacks");
    if (!ret) {
        __CPROVER_assert(memcmp(&pk, &z, sizeof(pk)) == 0, "rejected parse leaves an all-zero pubkey object");
    } else {
        ol = 33; __CPROVER_assert(secp256k1_ec_pubkey_serialize(&ctx, o33, &ol, &pk, SECP256K1_EC_COMPRESSED) && ol == 33, "compressed serialization succeeds");
        ol = 65; __CPROVER_assert(secp256k1_ec_pubkey_serialize(&ctx, o65, &ol, &pk, SECP256K1_EC_UNCOMPRESSED) && ol == 65, "uncompressed serialization succeeds");
        __CPROVER_assert(memcmp(o33 + 1, in.in + 1, 32) == 0 && memcmp(o65 + 1, in.in + 1, 32) == 0, "x coordinate round-trips");
        __CPROVER_assert(o65[0] == 4 && (o33[0] == 2 || o33[0] == 3) && (o33[0] & 1) == (o65[64] & 1), "prefixes canonical, compressed prefix = parity of y");
        if (in.len == 33) {
            __CPROVER_assert(o33[0] == in.in[0], "compressed input reproduces byte for byte");
            __CPROVER_assert(in.in[0] != 3, "witness: odd compressed key accepted");
        } else {
            __CPROVER_assert(memcmp(o65 + 33, in.in + 33, 32) == 0, "y coordinate round-trips; hybrid maps to its uncompressed form");
            __CPROVER_assert(in.in[0] != 7, "witness: hybrid-odd key accepted"); __CPROVER_assert(in.in[0] != 4, "witness: uncompressed key accepted");
        }
    }
}

/* serialize from an arbitrary pubkey object (64 bytes) and arbitrary flags / lengths */
typedef struct { secp256k1_pubkey pk; size_t ol; unsigned flags; int nullout; } ps_in_t;
ps_in_t nondet_ps_in(void);
void harness_pubkey_serialize(void) {
    secp256k1_context ctx; ps_in_t in = nondet_ps_in(); unsigned char out[80]; size_t ol, i; int ret; secp256k1_pubkey pk2; unsigned char o2[80]; size_t ol2;
    verif_ctx_init(&ctx); memset(out, 0xA5, sizeof(out));
    __CPROVER_assume(in.ol <= 80);
    /* representation invariant of pubkey objects (what pubkey_save produces): canonical coordinates < p */
    { uint64_t w[8]; bvw vx = 0, vy = 0; int j; memcpy(w, in.pk.data, 64); for (j = 3; j >= 0; j--) { vx = (vx << 64) | w[j]; vy = (vy << 64) | w[4 + j]; }
      __CPROVER_assume(vx < verif_P() && vy < verif_P()); }
    ol = in.ol;
    ret = secp256k1_ec_pubkey_serialize(&ctx, out, &ol, &in.pk, in.flags);
    __CPROVER_assert(ret == 0 || ret == 1, "boolean");
    if (ret) {
        __CPROVER_assert(ol == ((in.flags & SECP256K1_FLAGS_BIT_COMPRESSION) ? 33 : 65) && ol <= in.ol, "reported length matches the format and fits");
        __CPROVER_assert(verif_illegal_count == 0, "success => no illegal callback");
        for (i = 0; i < 80; i++) if (i >= in.ol) __CPROVER_assert(out[i] == 0xA5, "never writes beyond *outputlen");
        /* parse(serialize(P)) == P at the value level: re-serialization is identical */
        x_is_zero_flag = (be_val(out + 1, 32) == 0);
        if (secp256k1_ec_pubkey_parse(&ctx, &pk2, out, ol)) {
            ol2 = ol; secp256k1_ec_pubkey_serialize(&ctx, o2, &ol2, &pk2, in.flags);
            memcpy(o2, out, 80); ol2 = ol; secp256k1_ec_pubkey_serialize(&ctx, o2, &ol2, &pk2, in.flags); __CPROVER_assert(ol2 == ol && memcmp(o2, out, 80) == 0, "serialize(parse(serialize(P))) == serialize(P)");
            __CPROVER_assert(0, "witness: re-parse reached");
        }
    } else {
        __CPROVER_assert(ol == 0 || verif_illegal_count == 1, "failure => length zeroed or argument error reported");
    }
}

/* x-only */
typedef struct { unsigned char in[32]; } xo_in_t;
xo_in_t nondet_xo_in(void);
void harness_xonly(void) {
    secp256k1_context ctx; xo_in_t in = nondet_xo_in(); secp256k1_xonly_pubkey pk, z; unsigned char o[32], o33[33]; int ret; size_t ol = 33; bvw x = be_val(in.in, 32);
    verif_ctx_init(&ctx); memset(&z, 0, sizeof(z)); memset(&pk, 0xA5, sizeof(pk));
    x_is_zero_flag = (x == 0);
    ret = secp256k1_xonly_pubkey_parse(&ctx, &pk, in.in);
    __CPROVER_assert(ret == (x < verif_P() && sqrt_calls == 1 && sqrt_ret == 1), "xonly_parse accepts exactly x < p on the curve");
    if (!ret) __CPROVER_assert(memcmp(&pk, &z, sizeof(pk)) == 0, "rejected parse leaves an all-zero x-only key");
    else {
        __CPROVER_assert(secp256k1_xonly_pubkey_serialize(&ctx, o, &pk) && memcmp(o, in.in, 32) == 0, "xonly serialize(parse(x)) == x");
        __CPROVER_assert(secp256k1_ec_pubkey_serialize(&ctx, o33, &ol, (const secp256k1_pubkey *)&pk, SECP256K1_EC_COMPRESSED) && o33[0] == 2, "x-only keys are stored with even y");
        __CPROVER_assert(0, "witness: x-only accepted");
    }
    __CPROVER_assert(verif_illegal_count == 0, "no illegal callback");
}
