/* C04 (engine W): key-derivation API -- exact failure sets, outputs and hand-over to the curve layer at real width. */
#include "cfg_full.h"
#include "secp256k1.c"
#include "vcommon.h"
#define W_FIELD_TRANSPARENT
#define W_SCALAR_UF
#define W_SHA_HAVOC
#include "w_stubs.h"
#define GLUE_ADD
#include "w_glue.h"

typedef struct { unsigned char k[32], t[32], x32[32]; secp256k1_pubkey pk, pk2, pk3; secp256k1_keypair kp; secp256k1_xonly_pubkey xpk; int parity, n, nullpar; } in_t;
in_t nondet_in(void);
#define N verif_N()
#define P verif_P()
#define CANON_PK(pk) __CPROVER_assume(st_val(&(pk).data[0]) < P && st_val(&(pk).data[32]) < P)

void harness_seckey(void) {
    secp256k1_context ctx; in_t in = nondet_in(); unsigned char k1[32], k2[32], k3[32]; bvw k = be_val(in.k, 32), t = be_val(in.t, 32); int r;
    verif_ctx_init(&ctx);
    __CPROVER_assert(secp256k1_ec_seckey_verify(&ctx, in.k) == (k != 0 && k < N), "seckey_verify == (0 < k < n)");
    memcpy(k1, in.k, 32); r = secp256k1_ec_seckey_negate(&ctx, k1);
    __CPROVER_assert(r == (k != 0 && k < N) && be_val(k1, 32) == (r ? N - k : 0), "seckey_negate: n - k for valid keys, failure and zero output otherwise");
    memcpy(k2, in.k, 32); r = secp256k1_ec_seckey_tweak_add(&ctx, k2, in.t);
    __CPROVER_assert(r == (k != 0 && k < N && t < N && (k + t) % N != 0), "seckey_tweak_add fails exactly for invalid key, tweak >= n, or k + t == 0");
    __CPROVER_assert(be_val(k2, 32) == (r ? (k + t) % N : 0), "seckey_tweak_add output is (k+t) mod n, or zero on failure");
    memcpy(k3, in.k, 32); r = secp256k1_ec_seckey_tweak_mul(&ctx, k3, in.t);
    __CPROVER_assert(r == (k != 0 && k < N && t != 0 && t < N), "seckey_tweak_mul fails exactly for invalid key, zero tweak or tweak >= n");
    __CPROVER_assert(be_val(k3, 32) == (r ? (bvw)uf_scmul((sbv)k, (sbv)t) : 0), "seckey_tweak_mul output is k*t, or zero on failure");
    __CPROVER_assert(verif_illegal_count == 0 && verif_error_count == 0, "no callbacks");
    __CPROVER_assert(!(k != 0 && k < N && t == N - k), "witness: tweak == -key"); __CPROVER_assert(!r, "witness: tweak_mul success");
}

void harness_pubkey_create(void) {
    secp256k1_context ctx; in_t in = nondet_in(); secp256k1_pubkey pk; secp256k1_keypair kp; bvw k = be_val(in.k, 32); int r, ok = (k != 0 && k < N);
    verif_ctx_init(&ctx); glue_init();
    __CPROVER_assume(!glue_R[0].infinity && !glue_R[1].infinity);      /* k*G for 0 < k < n is finite */
    r = secp256k1_ec_pubkey_create(&ctx, &pk, in.k);
    __CPROVER_assert(r == ok, "pubkey_create succeeds exactly for 0 < k < n");
    __CPROVER_assert(glue_calls == 1 && glue_kind[0] == 2 && (bvw)sc_bv(&glue_ng[0]) == (ok ? k : 1), "P = k G (dummy scalar 1 for an invalid key)");
    if (r) __CPROVER_assert(pk_is(&pk, fe_val(&glue_R[0].x), fe_val(&glue_R[0].y)), "pubkey object holds the affine result");
    else __CPROVER_assert(verif_allzero(&pk, sizeof(pk)), "invalid key => all-zero pubkey object");
    r = secp256k1_keypair_create(&ctx, &kp, in.k);
    __CPROVER_assert(r == ok && (bvw)sc_bv(&glue_ng[1]) == (ok ? k : 1), "keypair_create succeeds exactly for 0 < k < n, P = k G");
    if (r) __CPROVER_assert(memcmp(kp.data, in.k, 32) == 0 && pk_is((secp256k1_pubkey *)&kp.data[32], fe_val(&glue_R[1].x), fe_val(&glue_R[1].y)), "keypair holds (k, k G)");
    else __CPROVER_assert(verif_allzero(&kp, sizeof(kp)), "invalid key => all-zero keypair");
    __CPROVER_assert(verif_illegal_count == 0, "no illegal callback"); __CPROVER_assert(!r, "witness: success");
}

void harness_pubkey_negate(void) {
    secp256k1_context ctx; in_t in = nondet_in(); secp256k1_pubkey pk = in.pk; bvw x, y; int r;
    verif_ctx_init(&ctx); CANON_PK(in.pk); x = st_val(&in.pk.data[0]); y = st_val(&in.pk.data[32]);
    r = secp256k1_ec_pubkey_negate(&ctx, &pk);
    __CPROVER_assert(r == (x != 0), "pubkey_negate fails only for the invalid (zero) object");
    if (r) __CPROVER_assert(pk_is(&pk, x, (P - y) % P), "pubkey_negate == (x, p - y)"); else __CPROVER_assert(verif_allzero(&pk, sizeof(pk)), "failure => zero object");
    __CPROVER_assert(!r, "witness: success");
}

void harness_pubkey_tweak_add(void) {
    secp256k1_context ctx; in_t in = nondet_in(); secp256k1_pubkey pk = in.pk; bvw x, y, t = be_val(in.t, 32); int r;
    verif_ctx_init(&ctx); glue_init(); CANON_PK(in.pk); x = st_val(&in.pk.data[0]); y = st_val(&in.pk.data[32]);
    r = secp256k1_ec_pubkey_tweak_add(&ctx, &pk, in.t);
    __CPROVER_assert(r == (x != 0 && t < N && !glue_R[0].infinity), "pubkey_tweak_add fails exactly for invalid key, tweak >= n, or result at infinity");
    if (x != 0 && t < N) __CPROVER_assert(glue_calls == 1 && glue_kind[0] == 1 && gej_is(&glue_a[0], x, y) && (bvw)sc_bv(&glue_na[0]) == 1 && !glue_ng_null[0] && (bvw)sc_bv(&glue_ng[0]) == t, "result = 1*P + t*G");
    else __CPROVER_assert(glue_calls == 0, "no curve operation on invalid input");
    if (r) __CPROVER_assert(pk_is(&pk, fe_val(&glue_R[0].x), fe_val(&glue_R[0].y)), "output is the affine result"); else __CPROVER_assert(verif_allzero(&pk, sizeof(pk)), "failure => zero object");
    __CPROVER_assert(!r, "witness: success"); __CPROVER_assert(!(x != 0 && t < N && !r), "witness: infinity result");
}

void harness_pubkey_tweak_mul(void) {
    secp256k1_context ctx; in_t in = nondet_in(); secp256k1_pubkey pk = in.pk; bvw x, y, t = be_val(in.t, 32); int r;
    verif_ctx_init(&ctx); glue_init(); CANON_PK(in.pk); x = st_val(&in.pk.data[0]); y = st_val(&in.pk.data[32]);
    __CPROVER_assume(!glue_R[0].infinity);                     /* t*P for 0 < t < n and finite P is finite */
    r = secp256k1_ec_pubkey_tweak_mul(&ctx, &pk, in.t);
    __CPROVER_assert(r == (x != 0 && t != 0 && t < N), "pubkey_tweak_mul fails exactly for invalid key, zero tweak or tweak >= n");
    if (r) __CPROVER_assert(glue_calls == 1 && glue_kind[0] == 1 && gej_is(&glue_a[0], x, y) && (bvw)sc_bv(&glue_na[0]) == t && (glue_ng_null[0] || sc_bv(&glue_ng[0]) == 0), "result = t*P + 0*G");
    if (r) __CPROVER_assert(pk_is(&pk, fe_val(&glue_R[0].x), fe_val(&glue_R[0].y)), "output is the affine result"); else __CPROVER_assert(verif_allzero(&pk, sizeof(pk)), "failure => zero object");
    __CPROVER_assert(!r, "witness: success");
}

/* combine n <= 3 keys: running sum through gej_add_ge (free results), infinity rejected */
void harness_pubkey_combine(void) {
    secp256k1_context ctx; in_t in = nondet_in(); secp256k1_pubkey out; const secp256k1_pubkey *ps[3]; int r, n = in.n, i; secp256k1_pubkey *src[3];
    verif_ctx_init(&ctx); glue_init(); CANON_PK(in.pk); CANON_PK(in.pk2); CANON_PK(in.pk3);
#ifdef NK
    n = NK;                                /* list-length class (assigned) */
#endif
    __CPROVER_assume(n >= 0 && n <= 3); src[0] = &in.pk; src[1] = &in.pk2; src[2] = &in.pk3; for (i = 0; i < 3; i++) ps[i] = src[i];
    __CPROVER_assume(st_val(&in.pk.data[0]) != 0 && st_val(&in.pk2.data[0]) != 0 && st_val(&in.pk3.data[0]) != 0);   /* valid key objects */
    r = secp256k1_ec_pubkey_combine(&ctx, &out, ps, (size_t)n);
    if (n == 0) __CPROVER_assert(r == 0 && verif_illegal_count == 1, "combine of an empty list is an argument error");
    else {
        __CPROVER_assert(glue_calls == n, "one addition per key");
        for (i = 0; i < 3; i++) if (i < n) {
            __CPROVER_assert(glue_kind[i] == 4 && fe_val(&glue_b[i].x) == st_val(&src[i]->data[0]) && fe_val(&glue_b[i].y) == st_val(&src[i]->data[32]) && !glue_b[i].infinity, "i-th addend is the i-th key");
            if (i == 0) __CPROVER_assert(glue_a[0].infinity, "sum starts at infinity"); else __CPROVER_assert(glue_a[i].infinity == glue_R[i - 1].infinity && (glue_a[i].infinity || gej_is(&glue_a[i], fe_val(&glue_R[i - 1].x), fe_val(&glue_R[i - 1].y))), "running sum carried");
        }
        __CPROVER_assert(r == !glue_R[n - 1].infinity, "combine fails exactly when the sum is the point at infinity");
        if (r) __CPROVER_assert(pk_is(&out, fe_val(&glue_R[n - 1].x), fe_val(&glue_R[n - 1].y)), "output is the affine sum");
    }
    if (!r) __CPROVER_assert(verif_allzero(&out, sizeof(out)), "failure => zero object");
    __CPROVER_assert(!(r && n >= 1), "witness: finite sum"); __CPROVER_assert(!(!r && n >= 1), "witness: sum at infinity");
}

/* x-only conversion and Taproot tweak */
void harness_xonly(void) {
    secp256k1_context ctx; in_t in = nondet_in(); secp256k1_xonly_pubkey xo; secp256k1_pubkey out; int par = 7, r, chk; bvw x, y, t = be_val(in.t, 32), X, Y; unsigned char x32[32];
    verif_ctx_init(&ctx); glue_init(); CANON_PK(in.pk); x = st_val(&in.pk.data[0]); y = st_val(&in.pk.data[32]);
    r = secp256k1_xonly_pubkey_from_pubkey(&ctx, &xo, in.nullpar ? NULL : &par, &in.pk);
    __CPROVER_assert(r == (x != 0), "xonly_from_pubkey fails only for the invalid object");
    if (r) __CPROVER_assert(pk_is((secp256k1_pubkey *)&xo, x, (y & 1) ? P - y : y) && (in.nullpar || par == (int)(y & 1)), "x-only key = (x, even y), parity reported");
    /* tweak the x-only key (an arbitrary canonical even-y or not object is accepted as stored) */
    CANON_PK(*(secp256k1_pubkey *)&in.xpk);
    X = st_val(&in.xpk.data[0]); Y = st_val(&in.xpk.data[32]);
    r = secp256k1_xonly_pubkey_tweak_add(&ctx, &out, &in.xpk, in.t);
    __CPROVER_assert(r == (X != 0 && t < N && !glue_R[0].infinity), "xonly_tweak_add fails exactly for invalid key, tweak >= n, or infinity");
    if (X != 0 && t < N) __CPROVER_assert(glue_kind[0] == 1 && gej_is(&glue_a[0], X, Y) && (bvw)sc_bv(&glue_na[0]) == 1 && (bvw)sc_bv(&glue_ng[0]) == t, "Q = P + t G");
    if (r) __CPROVER_assert(pk_is(&out, fe_val(&glue_R[0].x), fe_val(&glue_R[0].y)), "output is Q"); else __CPROVER_assert(verif_allzero(&out, sizeof(out)), "failure => zero object");
    /* the check accepts exactly (x(Q), parity(y(Q))) */
    glue_R[1] = glue_R[0];
    chk = secp256k1_xonly_pubkey_tweak_add_check(&ctx, in.x32, in.parity, &in.xpk, in.t);
    __CPROVER_assert(chk == (r && be_val(in.x32, 32) == fe_val(&glue_R[0].x) && in.parity == (int)(fe_val(&glue_R[0].y) & 1)), "tweak_add_check accepts exactly the (x, parity) the tweak produces");
    __CPROVER_assert(!chk, "witness: check accepts"); __CPROVER_assert(!(r && !chk && in.parity == 0 && be_val(in.x32, 32) == fe_val(&glue_R[0].x)), "witness: check rejects wrong parity");
}

/* keypair Taproot tweak: secret negated when y(P) is odd; both sides tweaked; failure zeroes the keypair */
void harness_keypair_tweak(void) {
    secp256k1_context ctx; in_t in = nondet_in(); secp256k1_keypair kp = in.kp; int r; bvw d, x, y, t = be_val(in.t, 32), dd, ye; secp256k1_xonly_pubkey xo; int par = 9;
    verif_ctx_init(&ctx); glue_init();
    d = be_val(&in.kp.data[0], 32); x = st_val(&in.kp.data[32]); y = st_val(&in.kp.data[64]); __CPROVER_assume(x < P && y < P);
    __CPROVER_assume(x != 0 && d != 0 && d < N);          /* valid keypair objects (invalid ones are an argument error, see C07) */
    r = secp256k1_keypair_xonly_pub(&ctx, &xo, &par, &in.kp);
    __CPROVER_assert(r == 1 && par == (int)(y & 1) && pk_is((secp256k1_pubkey *)&xo, x, (y & 1) ? P - y : y), "keypair_xonly_pub = (x, even y), parity");
    r = secp256k1_keypair_xonly_tweak_add(&ctx, &kp, in.t);
    dd = (y & 1) ? N - d : d; ye = (y & 1) ? P - y : y;
    __CPROVER_assert(r == (t < N && (dd + t) % N != 0 && !glue_R[0].infinity), "keypair_xonly_tweak_add fails exactly for tweak >= n, zero secret result or infinity");
    if (t < N) __CPROVER_assert(glue_kind[0] == 1 && gej_is(&glue_a[0], x, ye) && (bvw)sc_bv(&glue_na[0]) == 1 && (bvw)sc_bv(&glue_ng[0]) == t, "public side: even-y P + t G");
    if (r) __CPROVER_assert(be_val(&kp.data[0], 32) == (dd + t) % N && pk_is((secp256k1_pubkey *)&kp.data[32], fe_val(&glue_R[0].x), fe_val(&glue_R[0].y)), "keypair holds (d' + t, P' + tG) with d' = parity-adjusted secret");
    else __CPROVER_assert(verif_allzero(&kp, sizeof(kp)), "failure => all-zero keypair");
    __CPROVER_assert(!(r && (y & 1)), "witness: success with odd-y key");
}

/* comparison == lexicographic order of compressed encodings; invalid key sorts as 33 zero bytes with one illegal callback */
void harness_cmp(void) {
    secp256k1_context ctx; in_t in = nondet_in(); int c, e; bvw x1, y1, x2, y2; unsigned char a[33], b[33];
    verif_ctx_init(&ctx); CANON_PK(in.pk); CANON_PK(in.pk2);
    x1 = st_val(&in.pk.data[0]); y1 = st_val(&in.pk.data[32]); x2 = st_val(&in.pk2.data[0]); y2 = st_val(&in.pk2.data[32]);
    c = secp256k1_ec_pubkey_cmp(&ctx, &in.pk, &in.pk2);
    memset(a, 0, 33); memset(b, 0, 33);
    if (x1 != 0) { a[0] = 2 + (int)(y1 & 1); be32_of(a + 1, x1); } if (x2 != 0) { b[0] = 2 + (int)(y2 & 1); be32_of(b + 1, x2); }
    e = memcmp(a, b, 33);
    __CPROVER_assert((c < 0) == (e < 0) && (c > 0) == (e > 0), "pubkey_cmp == lexicographic order of the compressed encodings (invalid key = 33 zero bytes)");
    __CPROVER_assert(verif_illegal_count == (x1 == 0) + (x2 == 0), "exactly one illegal callback per invalid key");
    __CPROVER_assert(c >= 0, "witness: less"); __CPROVER_assert(c != 0, "witness: equal");
}

/* keypair_xonly_tweak_add on INVALID keypair objects (zero public half or zero / out-of-range secret half): an argument error, and
 * the object is wiped all the same -- a half-valid keypair must not survive a failed call */
void harness_keypair_tweak_invalid(void) {
    secp256k1_context ctx; in_t in = nondet_in(); secp256k1_keypair kp = in.kp; int r; bvw d, x, y;
    verif_ctx_init(&ctx); glue_init();
    d = be_val(&in.kp.data[0], 32); x = st_val(&in.kp.data[32]); y = st_val(&in.kp.data[64]); __CPROVER_assume(x < P && y < P);
    __CPROVER_assume(x == 0 || d == 0 || d >= N);
    r = secp256k1_keypair_xonly_tweak_add(&ctx, &kp, in.t);
    __CPROVER_assert(r == 0 && verif_illegal_count == 1, "invalid keypair: failure through exactly one illegal callback");
    __CPROVER_assert(verif_allzero(&kp, sizeof(kp)), "invalid keypair: the whole object is wiped (no half-valid keypair survives)");
    __CPROVER_assert(x == 0, "witness: valid public half with invalid secret half");
}
