/* C04 (engine B): heap sort and its call site. */
#include "cfg_full.h"
#include "secp256k1.c"
#include "vcommon.h"

#ifndef NS
#define NS 4
#endif
static int cmp_u64(const void *a, const void *b, void *d) { uint64_t x = *(const uint64_t *)a, y = *(const uint64_t *)b; (void)d; return x < y ? -1 : x > y; }
typedef struct { uint64_t a[NS + 2]; uint64_t w; } sort_in_t;
sort_in_t nondet_sort_in(void);
/* (1) the real secp256k1_hsort on NS pointer-sized elements (length class assigned): sorted permutation, nothing beyond n touched */
void harness_sort_full(void) {
    sort_in_t in = nondet_sort_in(); uint64_t pre[NS + 2]; size_t i, c0 = 0, c1 = 0;
    for (i = 0; i < NS + 2; i++) pre[i] = in.a[i];
    secp256k1_hsort(in.a, NS, sizeof(in.a[0]), cmp_u64, NULL);
    for (i = 0; i + 1 < NS; i++) __CPROVER_assert(in.a[i] <= in.a[i + 1], "output sorted");
    for (i = 0; i < NS; i++) { c0 += (pre[i] == in.w); c1 += (in.a[i] == in.w); }
    __CPROVER_assert(c0 == c1, "output is a permutation (every value keeps its multiplicity)");
    __CPROVER_assert(in.a[NS] == pre[NS] && in.a[NS + 1] == pre[NS + 1], "nothing beyond n elements touched");
#if NS >= 2
    __CPROVER_assert(!(pre[0] > pre[1]), "witness: unsorted input");
#endif
}

#ifdef SKELETON
/* (2) skeleton: the iteration space of secp256k1_hsort for EVERY count 0..SKMAX with heap_down / heap_swap recorded */
#ifndef SKMAX
#define SKMAX 300
#endif
static size_t sk_count, sk_phase1_k, sk_phase2_i, sk_calls; static int sk_expect_down; static void *sk_arr;
void STUB_secp256k1_heap_down(unsigned char *arr, size_t i, size_t heap_size, size_t stride, int (*cmp)(const void *, const void *, void *), void *cmp_data) {
    (void)cmp_data; sk_calls++;
    __CPROVER_assert(arr == sk_arr && stride == 8 && cmp == cmp_u64, "heap_down gets the caller's array, stride and comparator");
    if (sk_phase1_k > 0) { __CPROVER_assert(i == sk_phase1_k - 1 && heap_size == sk_count, "build phase: heap_down(k-1, count) for k = count/2 .. 1"); sk_phase1_k--; }
    else { __CPROVER_assert(sk_expect_down && i == 0 && heap_size == sk_phase2_i - 1, "extract phase: heap_down(0, i-1) after each swap"); sk_expect_down = 0; sk_phase2_i--; }
}
void STUB_secp256k1_heap_swap(unsigned char *arr, size_t i, size_t j, size_t stride) {
    sk_calls++;
    __CPROVER_assert((void *)arr == sk_arr && stride == 8, "heap_swap gets the caller's array and stride");
    __CPROVER_assert(sk_phase1_k == 0 && !sk_expect_down && i == 0 && j == sk_phase2_i - 1 && sk_phase2_i >= 2, "extract phase: swap(0, i-1) for i = count .. 2");
    sk_expect_down = 1;
}
typedef struct { size_t n; } sk_in_t; sk_in_t nondet_sk_in(void);
void harness_sort_skeleton(void) {
    static uint64_t arr[SKMAX]; sk_in_t in = nondet_sk_in();
    __CPROVER_assume(in.n <= SKMAX);
    sk_count = in.n; sk_phase1_k = in.n / 2; sk_phase2_i = in.n; sk_arr = arr;
    secp256k1_hsort(arr, in.n, 8, cmp_u64, NULL);
    __CPROVER_assert(sk_phase1_k == 0 && !sk_expect_down && (in.n < 2 ? sk_phase2_i == in.n : sk_phase2_i == 1), "both phases ran to completion");
    __CPROVER_assert(sk_calls == in.n / 2 + (in.n >= 2 ? 2 * (in.n - 1) : 0), "exact number of heap operations for this count");
    __CPROVER_assert(in.n != SKMAX, "witness: largest count"); __CPROVER_assert(in.n != 41, "witness: count 41");
}

#endif
#ifdef CALLSITE
/* (4) call site: ec_pubkey_sort hands the whole list, pointer stride and the pubkey comparator to hsort */
static size_t rec_count, rec_size; static void *rec_ptr, *rec_data; static int rec_calls; static int (*rec_cmp)(const void *, const void *, void *);
void STUB_secp256k1_hsort(void *ptr, size_t count, size_t size, int (*cmp)(const void *, const void *, void *), void *cmp_data) { rec_calls++; rec_ptr = ptr; rec_count = count; rec_size = size; rec_cmp = cmp; rec_data = cmp_data; }
#ifndef CSMAX
#define CSMAX 300
#endif
typedef struct { size_t n; secp256k1_pubkey a, b; int nullat; } cs_in_t; cs_in_t nondet_cs_in(void);
void harness_sort_callsite(void) {
    secp256k1_context ctx; cs_in_t in = nondet_cs_in(); static const secp256k1_pubkey *list[CSMAX]; static secp256k1_pubkey keys[2]; size_t i; int r; const secp256k1_pubkey *pa = &in.a, *pb = &in.b;
    verif_ctx_init(&ctx);
    __CPROVER_assume(in.n <= CSMAX);
    for (i = 0; i < CSMAX; i++) list[i] = &keys[i & 1];
    if (in.nullat >= 0 && in.nullat < CSMAX) list[in.nullat] = NULL;
    r = secp256k1_ec_pubkey_sort(&ctx, list, in.n);
    if (in.nullat >= 0 && (size_t)in.nullat < in.n) __CPROVER_assert(r == 0 && verif_illegal_count == 1 && rec_calls == 0, "NULL entry inside the list => argument error, nothing sorted");
    else {
        __CPROVER_assert(r == 1 && rec_calls == 1 && rec_ptr == (void *)list && rec_count == in.n && rec_size == sizeof(list[0]) && rec_data == (void *)&ctx, "hsort receives the whole list: n_pubkeys elements of pointer size, ctx as comparator data");
        /* the comparator handed over is the pubkey order (C04 pubkey_cmp query) applied through one pointer indirection */
        __CPROVER_assert(rec_cmp(&pa, &pb, &ctx) == secp256k1_ec_pubkey_cmp(&ctx, &in.a, &in.b), "comparator == ec_pubkey_cmp on the pointed-to keys");
        __CPROVER_assert(in.n != CSMAX, "witness: full list");
    }
}
#endif
