/* C05 (engine B): linear field / scalar kernels bit-exact against 320-bit arithmetic; SHA-256 buffering as one inductive step;
 * HMAC structure; tag midstates.  No abstraction except where stated. */
#include "cfg_full.h"
#include "secp256k1.c"
#include "vcommon.h"
#define P verif_P()
#define N verif_N()
#ifndef MAG
#define MAG 32
#endif
/* an arbitrary field element of magnitude <= m as field.h defines it (limb bounds), not necessarily normalised */
static secp256k1_fe fe_mag(int m) {
    secp256k1_fe a = nondet_fe(); int i;
    for (i = 0; i < 4; i++) __CPROVER_assume(a.n[i] <= 2ULL * m * 0xFFFFFFFFFFFFFULL);
    __CPROVER_assume(a.n[4] <= 2ULL * m * 0x0FFFFFFFFFFFFULL);
    return a;
}
static int fe_is_norm(const secp256k1_fe *r) { return (r->n[0] >> 52) == 0 && (r->n[1] >> 52) == 0 && (r->n[2] >> 52) == 0 && (r->n[3] >> 52) == 0 && (r->n[4] >> 48) == 0 && fe_val(r) < P; }

#ifdef FE_NORM
void harness_fe_normalize(void) {
    secp256k1_fe a = fe_mag(MAG), r, v, w; bvw A = fe_val(&a), red = A % P; int i;
    r = a; secp256k1_fe_impl_normalize(&r);
    __CPROVER_assert(fe_is_norm(&r) && fe_val(&r) == red, "fe_normalize: canonical limbs and value == a mod p");
    v = a; secp256k1_fe_impl_normalize_var(&v);
    for (i = 0; i < 5; i++) __CPROVER_assert(v.n[i] == r.n[i], "fe_normalize_var == fe_normalize");
    w = a; secp256k1_fe_impl_normalize_weak(&w);
    __CPROVER_assert(fe_val(&w) % P == red && (w.n[0] >> 52) == 0 && (w.n[1] >> 52) == 0 && (w.n[2] >> 52) == 0 && (w.n[3] >> 52) == 0 && w.n[4] <= 2 * 0x0FFFFFFFFFFFFULL, "fe_normalize_weak: magnitude 1 (limb bounds of field.h), same residue");
    __CPROVER_assert(secp256k1_fe_impl_normalizes_to_zero(&a) == (red == 0) && secp256k1_fe_impl_normalizes_to_zero_var(&a) == (red == 0), "normalizes_to_zero(_var) == (a mod p == 0)");
    __CPROVER_assert(!(red == 0 && A > P), "witness: non-trivial multiple of p"); __CPROVER_assert(!(A >= P && A < P + 1000), "witness: just above p");
}
#endif
#ifdef FE_B32
typedef struct { unsigned char b[32]; } b32_t; b32_t nondet_b32(void);
void harness_fe_b32(void) {
    b32_t in = nondet_b32(); secp256k1_fe q, m; unsigned char o[32]; bvw B = be_val(in.b, 32); int ok, i;
    ok = secp256k1_fe_impl_set_b32_limit(&q, in.b);
    __CPROVER_assert(ok == (B < P) && fe_val(&q) == B, "set_b32_limit: accepts exactly values < p, limbs hold the value");
    secp256k1_fe_impl_set_b32_mod(&m, in.b);
    __CPROVER_assert(fe_val(&m) == B && (m.n[4] >> 48) == 0, "set_b32_mod: limbs hold the 256-bit value (reduction deferred)");
    if (ok) { secp256k1_fe_impl_get_b32(o, &q); for (i = 0; i < 32; i++) __CPROVER_assert(o[i] == in.b[i], "get_b32(set_b32(x)) == x"); __CPROVER_assert(secp256k1_fe_impl_is_odd(&q) == (int)(B & 1) && secp256k1_fe_impl_is_zero(&q) == (B == 0), "is_odd / is_zero on normalised elements"); }
    __CPROVER_assert(ok, "witness: value >= p"); __CPROVER_assert(!ok, "witness: value < p");
}
#endif
#ifdef FE_LIN
typedef struct { int m, k, flag; uint64_t c; } lin_t; lin_t nondet_lin(void);
void harness_fe_linear(void) {
    lin_t in = nondet_lin(); secp256k1_fe a, b, r; secp256k1_fe_storage st; bvw A, Bv; int m = in.m & 15, k = in.k & 7;
    __CPROVER_assume(m >= 1 && m <= 8 && k >= 1 && k <= 4);
    a = fe_mag(m); b = fe_mag(m); A = fe_val(&a); Bv = fe_val(&b);
    r = a; secp256k1_fe_impl_add(&r, &b); __CPROVER_assert(fe_val(&r) == A + Bv, "fe_add: limbwise sum, no limb overflow within magnitude 16");
    secp256k1_fe_impl_negate_unchecked(&r, &a, m); __CPROVER_assert((fe_val(&r) + A) % P == 0, "fe_negate(a, m): a + result == 0 mod p for every a of magnitude <= m");
    r = a; secp256k1_fe_impl_mul_int_unchecked(&r, k); __CPROVER_assert(fe_val(&r) == A * (bvw)k, "fe_mul_int: value times k");
    r = a; secp256k1_fe_impl_half(&r); __CPROVER_assert((fe_val(&r) * 2) % P == A % P, "fe_half: 2 * result == a mod p");
    r = a; secp256k1_fe_impl_add_int(&r, (int)(in.c & 0x7FFF)); __CPROVER_assert(fe_val(&r) == A + (in.c & 0x7FFF), "fe_add_int");
    r = a; secp256k1_fe_impl_cmov(&r, &b, in.flag & 1); __CPROVER_assert(fe_val(&r) == ((in.flag & 1) ? Bv : A), "fe_cmov selects by flag");
    /* storage round trip and comparison on normalised elements */
    secp256k1_fe_impl_normalize(&a); secp256k1_fe_impl_normalize(&b);
    secp256k1_fe_impl_to_storage(&st, &a); secp256k1_fe_impl_from_storage(&r, &st);
    __CPROVER_assert(fe_val(&r) == fe_val(&a) && ((((((bvw)st.n[3] << 64) | st.n[2]) << 64) | st.n[1]) << 64 | st.n[0]) == fe_val(&a), "to_storage/from_storage round trip, storage holds the value in 4x64");
    { int c = secp256k1_fe_impl_cmp_var(&a, &b); bvw x = fe_val(&a), y = fe_val(&b); __CPROVER_assert((c < 0) == (x < y) && (c > 0) == (x > y), "fe_cmp_var orders by value"); }
    __CPROVER_assert(m != 8, "witness: magnitude 8 inputs");
}
#endif

#ifdef SC_LIN
typedef struct { unsigned char b[32], c[32]; int flag; unsigned bit; } sc_in_t; sc_in_t nondet_sc_in(void);
static bvw HALFN(void) { return N >> 1; }
void harness_scalar_linear(void) {
    sc_in_t in = nondet_sc_in(); secp256k1_scalar a, b, r; unsigned char o[32]; int ov = 9, ovb, i, ret; bvw A = be_val(in.b, 32), Bv = be_val(in.c, 32), ar, br;
    secp256k1_scalar_set_b32(&a, in.b, &ov); secp256k1_scalar_set_b32(&b, in.c, &ovb); ar = A % N; br = Bv % N;
    __CPROVER_assert(ov == (A >= N) && (bvw)sc_val(&a) == ar, "scalar_set_b32: reduces mod n and reports overflow exactly for values >= n");
    __CPROVER_assert(secp256k1_scalar_set_b32_seckey(&r, in.b) == (A != 0 && A < N), "set_b32_seckey accepts exactly 0 < x < n");
    secp256k1_scalar_get_b32(o, &a); __CPROVER_assert(be_val(o, 32) == ar, "scalar_get_b32 writes the big-endian value");
    ret = secp256k1_scalar_add(&r, &a, &b); __CPROVER_assert((bvw)sc_val(&r) == (ar + br) % N && ret == (ar + br >= N), "scalar_add: sum mod n, returns whether it wrapped");
    secp256k1_scalar_negate(&r, &a); __CPROVER_assert((bvw)sc_val(&r) == (N - ar) % N, "scalar_negate");
    __CPROVER_assert(secp256k1_scalar_is_high(&a) == (ar > HALFN()), "scalar_is_high == (a > (n-1)/2)");
    r = a; ret = secp256k1_scalar_cond_negate(&r, in.flag & 1); __CPROVER_assert((bvw)sc_val(&r) == ((in.flag & 1) ? (N - ar) % N : ar) && ret == ((in.flag & 1) ? -1 : 1), "scalar_cond_negate");
    r = a; secp256k1_scalar_cmov(&r, &b, in.flag & 1); __CPROVER_assert((bvw)sc_val(&r) == ((in.flag & 1) ? br : ar), "scalar_cmov");
    secp256k1_scalar_half(&r, &a); __CPROVER_assert(((bvw)sc_val(&r) * 2) % N == ar && (bvw)sc_val(&r) < N, "scalar_half: 2 * result == a mod n");
    __CPROVER_assert(secp256k1_scalar_is_zero(&a) == (ar == 0) && secp256k1_scalar_is_one(&a) == (ar == 1) && secp256k1_scalar_is_even(&a) == !(ar & 1) && secp256k1_scalar_eq(&a, &b) == (ar == br), "is_zero / is_one / is_even / eq");
    { secp256k1_scalar lo, hi; secp256k1_scalar_split_128(&lo, &hi, &a); __CPROVER_assert((bvw)sc_val(&lo) == (ar & ((((bvw)1) << 128) - 1)) && (bvw)sc_val(&hi) == (ar >> 128), "scalar_split_128"); }
    { unsigned bit = in.bit & 255; r = a; if (ar + (((bvw)1) << bit) < N) { secp256k1_scalar_cadd_bit(&r, bit, in.flag & 1); __CPROVER_assert((bvw)sc_val(&r) == ar + ((in.flag & 1) ? (((bvw)1) << bit) : 0), "scalar_cadd_bit (no overflow case, as its contract requires)"); } }
    (void)i;
    __CPROVER_assert(A < N, "witness: input >= n"); __CPROVER_assert(!(ar == HALFN() + 1), "witness: (n+1)/2");
}
#endif

#ifdef SHA_WRITE
/* one inductive step of secp256k1_sha256_write from an ARBITRARY hash state: the (pointer, n_blocks) pairs handed to the
 * compression callback and the buffer contents equal "old tail ++ new data" cut into 64-byte blocks; bytes counts them. */
#ifndef MAXLEN
#define MAXLEN 200
#endif
static const unsigned char *log_ptr[4]; static size_t log_n[4]; static int log_cnt; static unsigned char log_first_block[64];
struct st8 { uint32_t s[8]; }; struct st8 nondet_st8(void);
static void log_compress(uint32_t *state, const unsigned char *blocks, size_t n) {
    int i; struct st8 t = nondet_st8();
    if (log_cnt < 4) { log_ptr[log_cnt] = blocks; log_n[log_cnt] = n; }
    if (log_cnt == 0) for (i = 0; i < 64; i++) log_first_block[i] = blocks[i];
    log_cnt++;
    for (i = 0; i < 8; i++) state[i] = t.s[i];
}
typedef struct { secp256k1_sha256 h; size_t len, k; } sw_in_t; sw_in_t nondet_sw_in(void);
void harness_sha_write(void) {
    secp256k1_hash_ctx hc; sw_in_t in = nondet_sw_in(); secp256k1_sha256 h = in.h, pre; unsigned char data[MAXLEN]; size_t len = in.len, B, k = in.k;
    hc.fn_sha256_compression = log_compress; log_cnt = 0;
    __CPROVER_assume(len <= MAXLEN && h.bytes < ((uint64_t)1 << 60));
    pre = h; B = pre.bytes & 63;
    secp256k1_sha256_write(&hc, &h, data, len);
    __CPROVER_assert(h.bytes == pre.bytes + len, "byte counter advances by len");
    {
        size_t total = B + len, nblocks = total / 64, rem = total % 64;
        size_t expect_calls = (nblocks == 0) ? 0 : ((B > 0 ? 1 : 0) + ((nblocks - (B > 0 ? 1 : 0)) > 0 ? 1 : 0));
        __CPROVER_assert((size_t)log_cnt == expect_calls, "number of compression calls");
        __CPROVER_assume(k < 64);
        if (B > 0 && nblocks > 0) {
            __CPROVER_assert(log_ptr[0] == h.buf && log_n[0] == 1, "first call: the completed buffer, one block");
            __CPROVER_assert(log_first_block[k] == (k < B ? pre.buf[k] : data[k - B]), "completed buffer == old tail ++ head of the new data");
            if (nblocks > 1) __CPROVER_assert(log_ptr[1] == data + (64 - B) && log_n[1] == nblocks - 1, "second call: all remaining whole blocks straight from the input");
        } else if (nblocks > 0) {
            __CPROVER_assert(log_ptr[0] == data && log_n[0] == nblocks, "all whole blocks straight from the input");
        }
        if (k < rem) __CPROVER_assert(h.buf[k] == ((nblocks == 0 && k < B) ? pre.buf[k] : data[len - rem + k]), "buffer holds exactly the unprocessed tail");
        __CPROVER_assert(!(B > 0 && nblocks > 2), "witness: buffered tail plus several whole blocks"); __CPROVER_assert(len != MAXLEN, "witness: longest write");
    }
}
/* finalize from an arbitrary state: pads with 0x80, zeros and the 64-bit big-endian BIT length to a block boundary */
void harness_sha_finalize(void) {
    secp256k1_hash_ctx hc; sw_in_t in = nondet_sw_in(); secp256k1_sha256 h = in.h, pre; unsigned char out[32]; size_t B, k = in.k; int calls;
    hc.fn_sha256_compression = log_compress; log_cnt = 0;
    __CPROVER_assume(h.bytes < ((uint64_t)1 << 60)); pre = h; B = pre.bytes & 63;
    secp256k1_sha256_finalize(&hc, &h, out);
    calls = (B < 56) ? 1 : 2;
    __CPROVER_assert(log_cnt == calls, "finalize compresses one block, or two when fewer than 9 bytes are left in the block");
    __CPROVER_assume(k < 64);
    if (calls == 1) __CPROVER_assert(log_first_block[k] == (k < B ? pre.buf[k] : (k == B ? 0x80 : (k < 56 ? 0 : (unsigned char)((pre.bytes << 3) >> (8 * (63 - k)))))), "final block == tail || 0x80 || zeros || be64(bit length)");
    else __CPROVER_assert(log_first_block[k] == (k < B ? pre.buf[k] : (k == B ? 0x80 : 0)), "first padding block == tail || 0x80 || zeros");
    __CPROVER_assert(calls != 2, "witness: two-block padding");
}
#endif

#ifdef MIDSTATES
/* every precomputed tagged-hash midstate in the tree == SHA256(tag) || SHA256(tag) absorbed from the IV (REAL compression, concrete) */
#define CHECK_TAG(fn, tag) do { secp256k1_sha256 a, b; fn(&a); secp256k1_sha256_initialize_tagged(&hc, &b, (const unsigned char *)tag, sizeof(tag) - 1); \
    __CPROVER_assert(memcmp(a.s, b.s, 32) == 0 && a.bytes == 64 && b.bytes == 64, "midstate of " #fn " == tagged-hash init for \"" tag "\""); } while (0)
void harness_midstates(void) {
    secp256k1_hash_ctx hc; secp256k1_hash_ctx_init(&hc);
    CHECK_TAG(secp256k1_nonce_function_bip340_sha256_tagged, "BIP0340/nonce");
    CHECK_TAG(secp256k1_nonce_function_bip340_sha256_tagged_aux, "BIP0340/aux");
    CHECK_TAG(secp256k1_schnorrsig_sha256_tagged, "BIP0340/challenge");
    CHECK_TAG(secp256k1_schnorrsig_sha256_tagged_aggregation, "HalfAgg/randomizer");
    CHECK_TAG(secp256k1_s2c_ecdsa_point_sha256_tagged, "s2c/ecdsa/point");
    CHECK_TAG(secp256k1_s2c_ecdsa_data_sha256_tagged, "s2c/ecdsa/data");
    CHECK_TAG(secp256k1_bppp_sha256_tagged_commitment_init, "Bulletproofs_pp/v0/commitment");
    CHECK_TAG(secp256k1_ellswift_sha256_init_encode, "secp256k1_ellswift_encode");
    CHECK_TAG(secp256k1_ellswift_sha256_init_create, "secp256k1_ellswift_create");
    CHECK_TAG(secp256k1_ellswift_sha256_init_bip324, "bip324_ellswift_xonly_ecdh");
    CHECK_TAG(secp256k1_nonce_function_ecdsa_adaptor_sha256_tagged, "ECDSAadaptor/non");
    CHECK_TAG(secp256k1_nonce_function_ecdsa_adaptor_sha256_tagged_aux, "ECDSAadaptor/aux");
    CHECK_TAG(secp256k1_nonce_function_dleq_sha256_tagged, "DLEQ");
    CHECK_TAG(secp256k1_nonce_function_musig_sha256_tagged_aux, "MuSig/aux");
    CHECK_TAG(secp256k1_nonce_function_musig_sha256_tagged, "MuSig/nonce");
    CHECK_TAG(secp256k1_musig_compute_noncehash_sha256_tagged, "MuSig/noncecoef");
    CHECK_TAG(secp256k1_musig_keyagglist_sha256, "KeyAgg list");
    CHECK_TAG(secp256k1_musig_keyaggcoef_sha256, "KeyAgg coefficient");
    {   /* BIP-340: absent aux randomness == TaggedHash("BIP0340/aux", 0^32); the constant used by C02's reference */
        static const unsigned char H_AUX_ZERO[32] = {84, 241, 105, 207, 201, 226, 229, 114, 116, 128, 68, 31, 144, 186, 37, 196, 136, 244, 97, 199, 11, 94, 165, 220, 170, 247, 175, 105, 39, 10, 165, 20};
        secp256k1_sha256 a; unsigned char z[32] = {0}, o[32]; secp256k1_sha256_initialize_tagged(&hc, &a, (const unsigned char *)"BIP0340/aux", 11); secp256k1_sha256_write(&hc, &a, z, 32); secp256k1_sha256_finalize(&hc, &a, o);
        __CPROVER_assert(memcmp(o, H_AUX_ZERO, 32) == 0, "TaggedHash(BIP0340/aux, 32 zero bytes) == the mask constant");
    }
    {   /* SHA-256("abc") known answer through write/finalize with the real compression */
        static const unsigned char KAT[32] = {0xba,0x78,0x16,0xbf,0x8f,0x01,0xcf,0xea,0x41,0x41,0x40,0xde,0x5d,0xae,0x22,0x23,0xb0,0x03,0x61,0xa3,0x96,0x17,0x7a,0x9c,0xb4,0x10,0xff,0x61,0xf2,0x00,0x15,0xad};
        secp256k1_sha256 a; unsigned char o[32]; secp256k1_sha256_initialize(&a); secp256k1_sha256_write(&hc, &a, (const unsigned char *)"abc", 3); secp256k1_sha256_finalize(&hc, &a, o);
        __CPROVER_assert(memcmp(o, KAT, 32) == 0, "SHA-256(abc) known answer");
    }
}
#endif

#ifdef HMAC
/* HMAC-SHA256 == H((K' ^ opad) || H((K' ^ ipad) || m)) with an uninterpreted compression, key/message length classes */
#define W_SHA_UF
#include "w_stubs.h"
#define REF_SHA_MAX 200
#include "ref_sha.h"
#ifndef KLEN
#define KLEN 32
#define MLEN 33
#endif
typedef struct { unsigned char key[KLEN + 1], msg[MLEN + 1]; } hm_in_t; hm_in_t nondet_hm_in(void);
void harness_hmac(void) {
    secp256k1_hash_ctx hc; hm_in_t in = nondet_hm_in(); secp256k1_hmac_sha256 hm; unsigned char out[32], ref[32], kp[64], inner[64 + MLEN + 1], outer[96], ih[32]; int i;
    secp256k1_hash_ctx_init(&hc);
    secp256k1_hmac_sha256_initialize(&hc, &hm, in.key, KLEN); secp256k1_hmac_sha256_write(&hc, &hm, in.msg, MLEN); secp256k1_hmac_sha256_finalize(&hc, &hm, out);
    memset(kp, 0, 64);
#if KLEN <= 64
    memcpy(kp, in.key, KLEN);
#else
    ref_sha256(in.key, KLEN, kp);
#endif
    for (i = 0; i < 64; i++) inner[i] = kp[i] ^ 0x36; memcpy(inner + 64, in.msg, MLEN); ref_sha256(inner, 64 + MLEN, ih);
    for (i = 0; i < 64; i++) outer[i] = kp[i] ^ 0x5c; memcpy(outer + 64, ih, 32); ref_sha256(outer, 96, ref);
    __CPROVER_assert(memcmp(out, ref, 32) == 0, "HMAC-SHA256 == RFC 2104 composition (ipad/opad, long keys hashed first)");
    __CPROVER_assert(out[0] != 0, "witness: digest varies");
}
#endif
