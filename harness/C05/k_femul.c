#define SECP256K1_WIDEMUL_INT128 1
#define SECP256K1_INT128_NATIVE 1
#include <stdint.h>
#include "util.h"
#include "int128_impl.h"
#include "field_5x52_int128_impl.h"
__attribute__((noinline)) void k_fe_mul_inner(uint64_t *r, const uint64_t *a, const uint64_t *b) { secp256k1_fe_mul_inner(r, a, b); }
__attribute__((noinline)) void k_fe_sqr_inner(uint64_t *r, const uint64_t *a) { secp256k1_fe_sqr_inner(r, a); }
