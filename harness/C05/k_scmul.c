#define SECP256K1_WIDEMUL_INT128 1
#define SECP256K1_INT128_NATIVE 1
#include <stdint.h>
#include <string.h>
#include "util.h"
#include "int128_impl.h"
#include "scalar.h"
#include "scalar_impl.h"
__attribute__((noinline)) void k_scalar_mul_512(uint64_t *l8, const uint64_t *a, const uint64_t *b) { secp256k1_scalar_mul_512(l8, (const secp256k1_scalar*)a, (const secp256k1_scalar*)b); }
__attribute__((noinline)) void k_scalar_reduce_512(uint64_t *r4, const uint64_t *l8) { secp256k1_scalar_reduce_512((secp256k1_scalar*)r4, l8); }
