/* C06 (engine CT): branch-trace self-composition.
 * goto-instrument --branch verif_branch inserts verif_branch("taken") / verif_branch("not-taken") after EVERY conditional branch of the goto
 * program.  The function under analysis is executed twice in one symbolic execution with shared public inputs and independent
 * symbolic secrets; each run shifts its decisions into a wide bit-vector; the two decision strings (and their lengths) must be equal.
 * For a deterministic program the decision string determines the executed path, so equal strings == same sequence of branches.
 * The library's own declassification marker SECP256K1_CHECKMEM_DEFINE is mapped to a recorder: declassified bytes must be equal in
 * both runs for the comparison to apply (that is the semantic content of "explicitly declassified values may steer control flow").
 * Variable-time callees (ecmult, *_var) are recorded too: reaching one with run-dependent (= secret) operands is a violation. */
#include "cfg_full.h"
#define SECP256K1_CHECKMEM_H
#define SECP256K1_CHECKMEM_ENABLED 1
void verif_declassify(const void *p, unsigned long len);
#define SECP256K1_CHECKMEM_UNDEFINE(p, len) do { (void)(p); (void)(len); } while(0)
#define SECP256K1_CHECKMEM_DEFINE(p, len) verif_declassify((p), (len))
#define SECP256K1_CHECKMEM_MSAN_DEFINE(p, len) do { (void)(p); (void)(len); } while(0)
#define SECP256K1_CHECKMEM_CHECK(p, len) do { (void)(p); (void)(len); } while(0)
#define SECP256K1_CHECKMEM_CHECK_VERIFY(p, len) do { (void)(p); (void)(len); } while(0)
#define SECP256K1_CHECKMEM_RUNNING() (1)
#include "secp256k1.c"
unsigned char nondet_uchar(void); int nondet_int(void); uint64_t nondet_u64(void); uint32_t nondet_u32(void); size_t nondet_size_t(void);
secp256k1_fe nondet_fe(void); secp256k1_scalar nondet_scalar(void); secp256k1_ge nondet_ge(void); secp256k1_gej nondet_gej(void); secp256k1_ge_storage nondet_ges(void);

#ifndef SHA_CAP
#define SHA_CAP (1 << 20)
#endif
typedef unsigned __CPROVER_bitvector[8192] trace_t;
typedef unsigned __CPROVER_bitvector[4096] dlog_t;
#ifndef CT_UF
static int sha_calls;
#endif
static int vt_k[2];
static trace_t tr[2]; static unsigned tn[2]; static dlog_t dl[2], vt[2]; static unsigned dn[2], vn[2]; static int run, ct_on;
void verif_branch(const char *id) { if (ct_on) { tr[run] = (tr[run] << 1) | (id[0] == 't'); tn[run]++; } }
void verif_declassify(const void *p, unsigned long len) { const unsigned char *q = p; unsigned long i; int on = ct_on; ct_on = 0; for (i = 0; i < len; i++) { dl[run] = (dl[run] << 8) | q[i]; dn[run]++; } ct_on = on; }
static void vt_note(const void *p, unsigned long len) { const unsigned char *q = p; unsigned long i; int on = ct_on; ct_on = 0; for (i = 0; i < len; i++) { vt[run] = (vt[run] << 8) | q[i]; vn[run]++; } ct_on = on; }
#define BEGIN_RUN(k) do { run = (k); sha_calls = 0; vt_k[run] = 0; ct_on = 1; } while (0)
#define END_RUN() do { ct_on = 0; } while (0)
static void ct_verdict(void) {
    /* declassified values are public by the library's own declaration: only pairs of runs that agree on them are compared */
    __CPROVER_assume(dn[0] == dn[1] && dl[0] == dl[1]);
    __CPROVER_assert(tn[0] <= 8192 && dn[0] <= 512 && vn[0] <= 512, "trace registers large enough");
    __CPROVER_assert(vn[0] == vn[1] && vt[0] == vt[1], "variable-time routines are reached only with operands that do not depend on the secrets");
    __CPROVER_assert(tn[0] == tn[1], "same number of branch decisions for all secrets");
    __CPROVER_assert(tr[0] == tr[1], "same sequence of branch decisions for all secrets");
}

#ifdef CT_UF
/* API-level queries: kernels are uninterpreted FUNCTIONS of their operand values (w_uf.h), so computations on public data give the same
 * results in both runs while anything derived from a secret may differ; stub-internal branches are not events; variable-time
 * routines report their operands */
static void vt_note(const void *p, unsigned long len);
#define W_UF_ENTER int on_ = ct_on; ct_on = 0;
#define W_UF_LEAVE ct_on = on_;
#define W_UF_VT(p, len) vt_note((p), (len))
#define W_UF_GEN_Z
#include "vcommon.h"
#include "w_uf.h"
#define sha_calls uf_sha_calls
#define CT_REAL_KERNELS
#define CT_NO_SUMMARIES
#endif
/* ---- summaries of multiplicative kernels: constant-time by their own leaf queries (no branch at all), results arbitrary per run ---- */
#if !defined(CT_REAL_KERNELS)
static secp256k1_fe fe_m1(void) { int on_ = ct_on; secp256k1_fe r = nondet_fe(); ct_on = 0;
#ifdef SECP256K1_WIDEMUL_INT128
    __CPROVER_assume((r.n[0] >> 52) == 0 && (r.n[1] >> 52) == 0 && (r.n[2] >> 52) == 0 && (r.n[3] >> 52) == 0 && (r.n[4] >> 48) == 0);
#else
    { int i; for (i = 0; i < 9; i++) __CPROVER_assume((r.n[i] >> 26) == 0); __CPROVER_assume((r.n[9] >> 22) == 0); }
#endif
    ct_on = on_; return r; }
void STUB_secp256k1_fe_impl_mul(secp256k1_fe *r, const secp256k1_fe *a, const secp256k1_fe * SECP256K1_RESTRICT b) { (void)a; (void)b; *r = fe_m1(); }
void STUB_secp256k1_fe_impl_sqr(secp256k1_fe *r, const secp256k1_fe *a) { (void)a; *r = fe_m1(); }
void STUB_secp256k1_fe_impl_inv(secp256k1_fe *r, const secp256k1_fe *a) { (void)a; *r = fe_m1(); }
int STUB_secp256k1_fe_sqrt(secp256k1_fe * SECP256K1_RESTRICT r, const secp256k1_fe * SECP256K1_RESTRICT a) { (void)a; *r = fe_m1(); return nondet_int() & 1; }
static secp256k1_scalar sc_any(void) { secp256k1_scalar r = nondet_scalar(); __CPROVER_assume(!secp256k1_scalar_check_overflow(&r)); return r; }
void STUB_secp256k1_scalar_mul(secp256k1_scalar *r, const secp256k1_scalar *a, const secp256k1_scalar *b) { (void)a; (void)b; *r = sc_any(); }
void STUB_secp256k1_scalar_inverse(secp256k1_scalar *r, const secp256k1_scalar *a) { (void)a; *r = sc_any(); }
struct sha_st { uint32_t s[8]; }; struct sha_st nondet_sha_st(void);
/* optional bound on compression calls per run: cuts RFC 6979 retry attempts (stated bound) */
void STUB_secp256k1_sha256_transform_impl(uint32_t *s, const unsigned char *buf) { struct sha_st t = nondet_sha_st(); int i; (void)buf; sha_calls++; __CPROVER_assume(sha_calls <= SHA_CAP); for (i = 0; i < 8; i++) s[i] = t.s[i]; }
/* variable-time routines: operands recorded (they must be public); being functions of public operands, their results are the SAME in both
 * runs (run 0 draws an arbitrary result, run 1 replays it by call index) */
#define VT_MAX 16
static secp256k1_fe vt_fe[VT_MAX]; static secp256k1_scalar vt_sc[VT_MAX]; static secp256k1_gej vt_gej[VT_MAX]; static int vt_int[VT_MAX];
static int vt_next(void) { int k = vt_k[run]++; __CPROVER_assert(k < VT_MAX, "model: at most VT_MAX variable-time calls per run"); return k; }
#define SQ int on_ = ct_on; ct_on = 0;      /* the model's own branches are not events */
#define SR ct_on = on_;
void STUB_secp256k1_fe_impl_inv_var(secp256k1_fe *r, const secp256k1_fe *a) { SQ int k = vt_next(); vt_note(a, sizeof(*a)); if (run == 0) vt_fe[k] = fe_m1(); *r = vt_fe[k]; SR }
int STUB_secp256k1_fe_impl_is_square_var(const secp256k1_fe *x) { SQ int k = vt_next(), v; vt_note(x, sizeof(*x)); if (run == 0) vt_int[k] = nondet_int() & 1; v = vt_int[k]; SR return v; }
void STUB_secp256k1_scalar_inverse_var(secp256k1_scalar *r, const secp256k1_scalar *a) { SQ int k = vt_next(); vt_note(a, sizeof(*a)); if (run == 0) vt_sc[k] = sc_any(); *r = vt_sc[k]; SR }
void STUB_secp256k1_ecmult(secp256k1_gej *r, const secp256k1_gej *a, const secp256k1_scalar *na, const secp256k1_scalar *ng) {
    SQ int k = vt_next();
    vt_note(&a->x, sizeof(a->x)); vt_note(&a->y, sizeof(a->y)); vt_note(&a->infinity, sizeof(int)); vt_note(na, sizeof(*na)); if (ng) vt_note(ng, sizeof(*ng));
    if (run == 0) { vt_gej[k].x = fe_m1(); vt_gej[k].y = fe_m1(); vt_gej[k].z = fe_m1(); vt_gej[k].infinity = nondet_int() & 1; }
    *r = vt_gej[k]; SR
}
#ifndef CT_REAL_GEN
/* fixed-base and constant-time variable-base multiplication: constant-time by their own queries (ecmult_gen_*, ecmult_const_*) */
void STUB_secp256k1_ecmult_gen(const secp256k1_ecmult_gen_context *ctx, secp256k1_gej *r, const secp256k1_scalar *gn) { (void)ctx; (void)gn; r->x = fe_m1(); r->y = fe_m1(); r->z = fe_m1(); r->infinity = 0; }
void STUB_secp256k1_ecmult_const(secp256k1_gej *r, const secp256k1_ge *a, const secp256k1_scalar *q) { (void)a; (void)q; r->x = fe_m1(); r->y = fe_m1(); r->z = fe_m1(); r->infinity = 0; }
int STUB_secp256k1_ecmult_const_xonly(secp256k1_fe *r, const secp256k1_fe *n, const secp256k1_fe *d, const secp256k1_scalar *q, int known_on_curve) { int v = nondet_int() & 1; (void)n; (void)d; (void)q; *r = fe_m1(); return known_on_curve | v; }
#endif
#endif

typedef struct { secp256k1_scalar s1, s2; secp256k1_fe f1, f2; secp256k1_ge_storage gs1, gs2; unsigned char b32[32], c32[32], d32[32], k64[64]; int flag; uint64_t u; secp256k1_keypair kp; secp256k1_pubkey pk; } sec_t;   /* per-run secrets */
typedef struct { secp256k1_scalar s; secp256k1_fe f; unsigned char m32[32], t32[32], aux[32]; int nullaux; secp256k1_pubkey pk; secp256k1_xonly_pubkey xpk; secp256k1_musig_keyagg_cache cache; secp256k1_musig_session session; } pub_t;   /* shared public inputs */
sec_t nondet_sec(void); pub_t nondet_pub(void);
static void ct_cb(const char *msg, void *data) { (void)msg; (void)data; }    /* argument errors depend on public data only; the callback returns */
void STUB_secp256k1_ecmult_gen_scalar_diff(secp256k1_scalar *diff) { static secp256k1_scalar d; *diff = d; }   /* a public constant (its 257-iteration doubling loop is not the subject) */
static void ctx_init(secp256k1_context *ctx) { struct cw { secp256k1_context c; } nondet_cw(void); *ctx = nondet_cw().c; ctx->hash_ctx.fn_sha256_compression = secp256k1_sha256_transform; ctx->ecmult_gen_ctx.built = 1; ctx->declassify = 1; ctx->illegal_callback.fn = ct_cb; ctx->error_callback.fn = ct_cb; }
#define FE_OK(f, m) __CPROVER_assume(fe_mag_ok(&(f), (m)))
static int fe_mag_ok(const secp256k1_fe *a, int m) {
#ifdef SECP256K1_WIDEMUL_INT128
    return a->n[0] <= 2 * (uint64_t)m * 0xFFFFFFFFFFFFFULL && a->n[1] <= 2 * (uint64_t)m * 0xFFFFFFFFFFFFFULL && a->n[2] <= 2 * (uint64_t)m * 0xFFFFFFFFFFFFFULL && a->n[3] <= 2 * (uint64_t)m * 0xFFFFFFFFFFFFFULL && a->n[4] <= 2 * (uint64_t)m * 0x0FFFFFFFFFFFFULL;
#else
    int i; for (i = 0; i < 9; i++) if (a->n[i] > 2 * (uint32_t)m * 0x3FFFFFFUL) return 0; return a->n[9] <= 2 * (uint32_t)m * 0x03FFFFFUL;
#endif
}
#define TWO_RUNS(CALL0, CALL1) BEGIN_RUN(0); CALL0; END_RUN(); BEGIN_RUN(1); CALL1; END_RUN(); ct_verdict(); __CPROVER_assert(tn[0] < MINEV, "witness: the function executes branch decisions / is reached")
#ifndef MINEV
#define MINEV 0
#endif

/* ================= leaves ================= */
#ifdef LEAF
void harness_leaf(void) {
    sec_t a = nondet_sec(), b = nondet_sec(); pub_t p = nondet_pub(); secp256k1_scalar r0, r1; secp256k1_fe g0, g1; int i0, i1, ov0, ov1; (void)p; (void)r0; (void)r1; (void)g0; (void)g1; (void)i0; (void)i1; (void)ov0; (void)ov1;
    FE_OK(a.f1, 8); FE_OK(b.f1, 8); FE_OK(a.f2, 8); FE_OK(b.f2, 8); a.flag &= 1; b.flag &= 1;
#if LEAF == 1
    TWO_RUNS(secp256k1_scalar_cond_negate(&a.s1, a.flag), secp256k1_scalar_cond_negate(&b.s1, b.flag));
#elif LEAF == 2
    TWO_RUNS(secp256k1_scalar_cmov(&a.s1, &a.s2, a.flag), secp256k1_scalar_cmov(&b.s1, &b.s2, b.flag));
#elif LEAF == 3
    TWO_RUNS(i0 = secp256k1_scalar_set_b32_seckey(&r0, a.b32), i1 = secp256k1_scalar_set_b32_seckey(&r1, b.b32));
#elif LEAF == 4
    TWO_RUNS((i0 = secp256k1_scalar_add(&r0, &a.s1, &a.s2), secp256k1_scalar_negate(&r0, &r0), secp256k1_scalar_half(&r0, &r0)), (i1 = secp256k1_scalar_add(&r1, &b.s1, &b.s2), secp256k1_scalar_negate(&r1, &r1), secp256k1_scalar_half(&r1, &r1)));
#elif LEAF == 5
    TWO_RUNS((secp256k1_fe_cmov(&a.f1, &a.f2, a.flag), secp256k1_fe_normalize(&a.f1)), (secp256k1_fe_cmov(&b.f1, &b.f2, b.flag), secp256k1_fe_normalize(&b.f1)));
#elif LEAF == 6
    TWO_RUNS(i0 = secp256k1_fe_normalizes_to_zero(&a.f1), i1 = secp256k1_fe_normalizes_to_zero(&b.f1));
#elif LEAF == 7
    TWO_RUNS((secp256k1_fe_half(&a.f1), secp256k1_fe_negate_unchecked(&a.f2, &a.f2, 8), secp256k1_fe_normalize_weak(&a.f2)), (secp256k1_fe_half(&b.f1), secp256k1_fe_negate_unchecked(&b.f2, &b.f2, 8), secp256k1_fe_normalize_weak(&b.f2)));
#elif LEAF == 8
    TWO_RUNS(secp256k1_ge_storage_cmov(&a.gs1, &a.gs2, a.flag), secp256k1_ge_storage_cmov(&b.gs1, &b.gs2, b.flag));
#elif LEAF == 9
    TWO_RUNS((secp256k1_memczero(a.b32, 32, a.flag), i0 = secp256k1_is_zero_array(a.c32, 32), secp256k1_int_cmov(&i0, &a.flag, a.c32[0] & 1)), (secp256k1_memczero(b.b32, 32, b.flag), i1 = secp256k1_is_zero_array(b.c32, 32), secp256k1_int_cmov(&i1, &b.flag, b.c32[0] & 1)));
#elif LEAF == 10
    TWO_RUNS((secp256k1_scalar_set_b32(&r0, a.b32, &ov0), i0 = secp256k1_scalar_is_zero(&r0), i0 |= secp256k1_scalar_is_high(&r0), secp256k1_scalar_get_b32(a.c32, &r0)), (secp256k1_scalar_set_b32(&r1, b.b32, &ov1), i1 = secp256k1_scalar_is_zero(&r1), i1 |= secp256k1_scalar_is_high(&r1), secp256k1_scalar_get_b32(b.c32, &r1)));
#elif LEAF == 11
    FE_OK(a.f1, 1); FE_OK(b.f1, 1); FE_OK(a.f2, 1); FE_OK(b.f2, 1);
    TWO_RUNS((secp256k1_fe_mul(&g0, &a.f1, &a.f2), secp256k1_fe_sqr(&g0, &g0)), (secp256k1_fe_mul(&g1, &b.f1, &b.f2), secp256k1_fe_sqr(&g1, &g1)));
#elif LEAF == 12
    TWO_RUNS(secp256k1_scalar_mul(&r0, &a.s1, &a.s2), secp256k1_scalar_mul(&r1, &b.s1, &b.s2));
#elif LEAF == 14   /* constant-time modular inversion (real modinv64 / modinv32: fixed number of divsteps) */
    FE_OK(a.f1, 1); FE_OK(b.f1, 1);
    TWO_RUNS((secp256k1_fe_inv(&g0, &a.f1), secp256k1_scalar_inverse(&r0, &a.s1)), (secp256k1_fe_inv(&g1, &b.f1), secp256k1_scalar_inverse(&r1, &b.s1)));
#elif LEAF == 13
    TWO_RUNS((secp256k1_fe_set_b32_mod(&g0, a.b32), secp256k1_fe_get_b32(a.c32, (secp256k1_fe_normalize(&g0), &g0)), i0 = secp256k1_fe_is_odd(&g0)), (secp256k1_fe_set_b32_mod(&g1, b.b32), secp256k1_fe_get_b32(b.c32, (secp256k1_fe_normalize(&g1), &g1)), i1 = secp256k1_fe_is_odd(&g1)));
#endif
}
#endif

/* ================= fixed-base multiplication: real digit loop and table scan, field kernels summarised ================= */
#ifdef GEN
/* the 43 x 32 conditional moves of the table scan: summarised (constant-time by leaf query 8); the scan loop, digit extraction,
 * sign handling, additions' control flow and the blinding rescale stay real code */
void STUB_secp256k1_ge_storage_cmov(secp256k1_ge_storage *r, const secp256k1_ge_storage *a, int flag) { (void)a; (void)flag; *r = nondet_ges(); }
void harness_ecmult_gen(void) {
    secp256k1_context c0, c1; sec_t a = nondet_sec(), b = nondet_sec(); secp256k1_gej r0, r1;
    ctx_init(&c0); c1 = c0;
    /* secrets: the scalar AND the blinding state (seed-derived): scalar_offset, proj_blind */
    c0.ecmult_gen_ctx.scalar_offset = a.s2; c1.ecmult_gen_ctx.scalar_offset = b.s2; FE_OK(a.f1, 1); FE_OK(b.f1, 1); c0.ecmult_gen_ctx.proj_blind = a.f1; c1.ecmult_gen_ctx.proj_blind = b.f1;
    FE_OK(c0.ecmult_gen_ctx.ge_offset.x, 1); FE_OK(c0.ecmult_gen_ctx.ge_offset.y, 1); c0.ecmult_gen_ctx.ge_offset.infinity = 0; c1.ecmult_gen_ctx.ge_offset = c0.ecmult_gen_ctx.ge_offset;
    TWO_RUNS(secp256k1_ecmult_gen(&c0.ecmult_gen_ctx, &r0, &a.s1), secp256k1_ecmult_gen(&c1.ecmult_gen_ctx, &r1, &b.s1));
}
#endif

/* ================= constant-time variable-base multiplication: real recoding, table build and table scans ================= */
#ifdef CONSTMUL
void harness_ecmult_const(void) {
    sec_t a = nondet_sec(), b = nondet_sec(); pub_t p = nondet_pub(); secp256k1_gej r0, r1; secp256k1_ge pt;
    FE_OK(p.f, 1); pt.x = p.f; pt.y = p.f; pt.infinity = 0;          /* the point is public, the scalar secret */
    TWO_RUNS(secp256k1_ecmult_const(&r0, &pt, &a.s1), secp256k1_ecmult_const(&r1, &pt, &b.s1));
}
#endif

/* ================= API level ================= */
#ifdef API
static const unsigned char *ct_nonce[2];
static int ct_noncefn(unsigned char *nonce32, const unsigned char *msg32, const unsigned char *key32, const unsigned char *algo16, void *data, unsigned int counter) {
    int on_ = ct_on; ct_on = 0; (void)msg32; (void)key32; (void)algo16; (void)data; __CPROVER_assume(counter == 0);     /* bound: first nonce attempt */
    memcpy(nonce32, ct_nonce[run], 32); ct_on = on_; return 1;
}
void harness_api(void) {
    secp256k1_context ctx; sec_t a = nondet_sec(), b = nondet_sec(); pub_t p = nondet_pub(); int r0, r1; unsigned char o0[64], o1[64]; secp256k1_pubkey pk0, pk1; secp256k1_keypair kp0, kp1; secp256k1_ecdsa_signature sg0, sg1;
    (void)o0; (void)o1; (void)pk0; (void)pk1; (void)kp0; (void)kp1; (void)sg0; (void)sg1; (void)r0; (void)r1;
    ctx_init(&ctx);
#ifdef CT_UF
    uf_sha_cap = SHA_CAP;
#endif
#if API == 1     /* secp256k1_ec_seckey_verify / negate / tweak_add / tweak_mul: key secret, tweak public */
    TWO_RUNS((r0 = secp256k1_ec_seckey_verify(&ctx, a.b32), r0 |= secp256k1_ec_seckey_negate(&ctx, a.c32), r0 |= secp256k1_ec_seckey_tweak_add(&ctx, a.d32, p.t32), r0 |= secp256k1_ec_seckey_tweak_mul(&ctx, a.b32, p.t32)),
             (r1 = secp256k1_ec_seckey_verify(&ctx, b.b32), r1 |= secp256k1_ec_seckey_negate(&ctx, b.c32), r1 |= secp256k1_ec_seckey_tweak_add(&ctx, b.d32, p.t32), r1 |= secp256k1_ec_seckey_tweak_mul(&ctx, b.b32, p.t32)));
#elif API == 2   /* key generation */
    TWO_RUNS((r0 = secp256k1_ec_pubkey_create(&ctx, &pk0, a.b32), r0 |= secp256k1_keypair_create(&ctx, &kp0, a.c32)), (r1 = secp256k1_ec_pubkey_create(&ctx, &pk1, b.b32), r1 |= secp256k1_keypair_create(&ctx, &kp1, b.c32)));
#elif API == 3   /* ECDSA signing: key secret, message public */
    TWO_RUNS(r0 = secp256k1_ecdsa_sign(&ctx, &sg0, p.m32, a.b32, NULL, NULL), r1 = secp256k1_ecdsa_sign(&ctx, &sg1, p.m32, b.b32, NULL, NULL));
#elif API == 4   /* BIP-340 signing: keypair secret, message and aux public */
    memcpy(&b.kp.data[32], &a.kp.data[32], 64);      /* the public key half of a keypair is public */
    TWO_RUNS(r0 = secp256k1_schnorrsig_sign32(&ctx, o0, p.m32, &a.kp, p.nullaux ? NULL : p.aux), r1 = secp256k1_schnorrsig_sign32(&ctx, o1, p.m32, &b.kp, p.nullaux ? NULL : p.aux));
#elif API == 5   /* ECDH: scalar secret, point public */
    TWO_RUNS(r0 = secp256k1_ecdh(&ctx, o0, &p.pk, a.b32, NULL, NULL), r1 = secp256k1_ecdh(&ctx, o1, &p.pk, b.b32, NULL, NULL));
#elif API == 6   /* context randomization: seed secret */
    { secp256k1_context c1 = ctx; TWO_RUNS(r0 = secp256k1_context_randomize(&ctx, a.b32), r1 = secp256k1_context_randomize(&c1, b.b32)); }
#elif API == 7   /* keypair tweak: keypair secret, tweak public */
    memcpy(&b.kp.data[32], &a.kp.data[32], 64);
    TWO_RUNS(r0 = secp256k1_keypair_xonly_tweak_add(&ctx, &a.kp, p.t32), r1 = secp256k1_keypair_xonly_tweak_add(&ctx, &b.kp, p.t32));
#elif API == 8   /* MuSig partial signing: secret nonce scalars and secret key; bound public key, cache, session public */
    { secp256k1_musig_secnonce n0, n1; secp256k1_musig_partial_sig ps0, ps1; struct snw { secp256k1_musig_secnonce s; } nondet_snw(void); n0 = nondet_snw().s; n1 = nondet_snw().s;
      memcpy(n1.data, n0.data, 4); memcpy(&n1.data[68], &n0.data[68], 64);                 /* magic and bound public key are public */
      memcpy(&b.kp.data[32], &a.kp.data[32], 64);
      TWO_RUNS(r0 = secp256k1_musig_partial_sign(&ctx, &ps0, &n0, &a.kp, &p.cache, &p.session), r1 = secp256k1_musig_partial_sign(&ctx, &ps1, &n1, &b.kp, &p.cache, &p.session)); }
#elif API == 9   /* MuSig nonce generation: session randomness and secret key secret */
    { secp256k1_musig_secnonce n0, n1; secp256k1_musig_pubnonce q0, q1;
      TWO_RUNS(r0 = secp256k1_musig_nonce_gen(&ctx, &n0, &q0, a.b32, a.c32, &p.pk, p.m32, &p.cache, p.nullaux ? NULL : p.aux), r1 = secp256k1_musig_nonce_gen(&ctx, &n1, &q1, b.b32, b.c32, &p.pk, p.m32, &p.cache, p.nullaux ? NULL : p.aux)); }
#elif API == 10  /* ECDSA adaptor decryption: decryption key secret, adaptor signature public */
    { unsigned char as[162]; TWO_RUNS(r0 = secp256k1_ecdsa_adaptor_decrypt(&ctx, &sg0, a.b32, as), r1 = secp256k1_ecdsa_adaptor_decrypt(&ctx, &sg1, b.b32, as)); }
#elif API == 11  /* sign-to-contract signing: key secret, message and host data public */
    { secp256k1_ecdsa_s2c_opening op0, op1; TWO_RUNS(r0 = secp256k1_ecdsa_s2c_sign(&ctx, &sg0, &op0, p.m32, a.b32, p.t32), r1 = secp256k1_ecdsa_s2c_sign(&ctx, &sg1, &op1, p.m32, b.b32, p.t32)); }
#elif API == 12  /* ElligatorSwift key exchange: secret key secret, both encodings public */
    { unsigned char ea[64], eb[64]; int party = p.nullaux & 1; TWO_RUNS(r0 = secp256k1_ellswift_xdh(&ctx, o0, ea, eb, a.b32, party, secp256k1_ellswift_xdh_hash_function_bip324, NULL), r1 = secp256k1_ellswift_xdh(&ctx, o1, ea, eb, b.b32, party, secp256k1_ellswift_xdh_hash_function_bip324, NULL)); }
#elif API == 13  /* sign-to-contract signing path of ecdsa_sign_inner (opening, nonce tweak) with the nonce supplied by a branch-free caller function:
                    key and nonce secret; message and host data public */
    { secp256k1_scalar rr0, ss0, rr1, ss1; secp256k1_sha256 sh0, sh1; secp256k1_ecdsa_s2c_opening op0, op1;
      secp256k1_s2c_ecdsa_point_sha256_tagged(&sh0); sh1 = sh0; ct_nonce[0] = a.c32; ct_nonce[1] = b.c32;
      TWO_RUNS(r0 = secp256k1_ecdsa_sign_inner(&ctx, &rr0, &ss0, NULL, &sh0, &op0, p.t32, p.m32, a.b32, ct_noncefn, NULL), r1 = secp256k1_ecdsa_sign_inner(&ctx, &rr1, &ss1, NULL, &sh1, &op1, p.t32, p.m32, b.b32, ct_noncefn, NULL)); }
#endif
}
#endif
