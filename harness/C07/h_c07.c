/* C07 (engine W): untrusted bytes never cause undefined behaviour, callback aborts or leaks.
 * Every entry point gets an input buffer that is an object of EXACTLY the declared length (heap object of symbolic size), all
 * bytes symbolic; CBMC's built-in checks (bounds, pointer validity, pointer arithmetic, signed overflow, shifts, division,
 * NULL dereference) decide "stays inside its buffers / no undefined operation", unwinding assertions decide termination
 * within the stated lengths, counting callbacks decide "no illegal/error callback", and objects produced by a successful
 * parse are handed to the consumers of their type.  Multiplicative kernels return arbitrary values (over-approximation). */
#include "cfg_full.h"
#include "secp256k1.c"
#include "vcommon.h"
#define W_FIELD
#define W_SCALAR
#define W_ECMULT
#define W_SHA_API
#include "w_stubs.h"
/* remaining curve helpers that contain long arithmetic: arbitrary results of the right type */
/* (facts used: no point of the curve has x == 0 -- 7 is not a square mod p -- so lift-x / on-curve tests never succeed there) */
int STUB_secp256k1_ge_set_xo_var(secp256k1_ge *r, const secp256k1_fe *x, int odd) { (void)odd; r->x = *x; r->y = verif_fe_m1(); r->infinity = 0; return secp256k1_fe_normalizes_to_zero_var(x) ? 0 : (nondet_int() & 1); }
int STUB_secp256k1_ge_set_xquad(secp256k1_ge *r, const secp256k1_fe *x) { r->x = *x; r->y = verif_fe_m1(); r->infinity = 0; return secp256k1_fe_normalizes_to_zero_var(x) ? 0 : (nondet_int() & 1); }
int STUB_secp256k1_ge_is_valid_var(const secp256k1_ge *a) { if (a->infinity || secp256k1_fe_normalizes_to_zero_var(&a->x)) return 0; return nondet_int() & 1; }

#ifndef MAXLEN
#define MAXLEN 72
#endif
#define BOOL(r) __CPROVER_assert((r) == 0 || (r) == 1, "returns only 0 or 1")
#define NOCB() __CPROVER_assert(verif_illegal_count == 0 && verif_error_count == 0, "neither the illegal-argument nor the error callback is invoked")
/* heap object of exactly n symbolic bytes (n == 0: a zero-size object -- any read is out of bounds) */
static unsigned char *exact_buf(size_t n) { unsigned char *p = malloc(n); __CPROVER_assume(p != NULL); return p; }
static unsigned char *exact_buf0(size_t n) { return exact_buf(n); }
typedef struct { unsigned char a32[32], b32[32], c32[32], k64[64], k64b[64], k66[66], k66b[66], c33a[33], c33b[33], g33[33], s162[162]; secp256k1_pubkey pk, pk2; secp256k1_xonly_pubkey xpk; secp256k1_musig_keyagg_cache cache; int f, recid, party; size_t len; } in_t;
in_t nondet_in(void);
#define CANON(pk) __CPROVER_assume(be_nat(&(pk).data[0]) < verif_P() && be_nat(&(pk).data[32]) < verif_P() && be_nat(&(pk).data[0]) != 0)
static bvw be_nat(const unsigned char *p) { uint64_t w[4]; bvw v = 0; int i; memcpy(w, p, 32); for (i = 3; i >= 0; i--) v = (v << 64) | w[i]; return v; }

/* A. public keys */
void harness_pubkey(void) {
    secp256k1_context ctx; in_t in = nondet_in(); secp256k1_pubkey pk; secp256k1_xonly_pubkey x; unsigned char out[65], *buf; size_t len = in.len, ol; int r, par;
    verif_ctx_init(&ctx); __CPROVER_assume(len <= MAXLEN); buf = exact_buf(len);
    r = secp256k1_ec_pubkey_parse(&ctx, &pk, buf, len); BOOL(r); NOCB();
    if (r) {
        ol = 33; r = secp256k1_ec_pubkey_serialize(&ctx, out, &ol, &pk, SECP256K1_EC_COMPRESSED); __CPROVER_assert(r == 1 && ol == 33, "parsed key serializes (compressed)");
        ol = 65; r = secp256k1_ec_pubkey_serialize(&ctx, out, &ol, &pk, SECP256K1_EC_UNCOMPRESSED); __CPROVER_assert(r == 1 && ol == 65, "parsed key serializes (uncompressed)");
        r = secp256k1_ec_pubkey_negate(&ctx, &pk); BOOL(r);
        r = secp256k1_ec_pubkey_cmp(&ctx, &pk, &pk); __CPROVER_assert(r == 0, "parsed key compares equal to itself");
        r = secp256k1_xonly_pubkey_from_pubkey(&ctx, &x, &par, &pk); BOOL(r);
        r = secp256k1_ec_pubkey_tweak_add(&ctx, &pk, in.a32); BOOL(r);
        NOCB(); __CPROVER_assert(0, "witness: a key parses");
    } else __CPROVER_assert(verif_allzero(&pk, sizeof(pk)), "rejected input leaves a zeroed key object");
    free(buf);
}
void harness_xonly(void) {
    secp256k1_context ctx; in_t in = nondet_in(); secp256k1_xonly_pubkey x; secp256k1_pubkey out; unsigned char o32[32]; int r;
    verif_ctx_init(&ctx);
    r = secp256k1_xonly_pubkey_parse(&ctx, &x, in.a32); BOOL(r); NOCB();
    if (r) {
        r = secp256k1_xonly_pubkey_serialize(&ctx, o32, &x); __CPROVER_assert(r == 1, "parsed x-only key serializes");
        r = secp256k1_xonly_pubkey_tweak_add(&ctx, &out, &x, in.b32); BOOL(r);
        r = secp256k1_xonly_pubkey_tweak_add_check(&ctx, in.c32, in.f & 1, &x, in.b32); BOOL(r);
        r = secp256k1_schnorrsig_verify(&ctx, in.k64, in.c32, 32, &x); BOOL(r);
        NOCB(); __CPROVER_assert(0, "witness: an x-only key parses");
    }
}
/* B. ECDSA signatures */
void harness_ecdsa_sig(void) {
    secp256k1_context ctx; in_t in = nondet_in(); secp256k1_ecdsa_signature sig, sig2; unsigned char out[80], *buf; size_t len = in.len, ol = 80; int r;
    verif_ctx_init(&ctx); __CPROVER_assume(len <= MAXLEN); CANON(in.pk);
#ifdef DERLEN   /* length class (assigned): the input is a separate local object of exactly DERLEN bytes */
    unsigned char xbuf[DERLEN ? DERLEN : 1]; len = DERLEN; buf = xbuf;
#else
    buf = exact_buf(len);
#endif
#ifdef DERONLY
    in.f = 1;
#endif
#ifdef COMPACTONLY
    in.f = 0;
#endif
    if (in.f & 1) r = secp256k1_ecdsa_signature_parse_der(&ctx, &sig, buf, len);
    else { __CPROVER_assume(len == 64); r = secp256k1_ecdsa_signature_parse_compact(&ctx, &sig, buf); }
    BOOL(r); NOCB();
    if (r) {
        r = secp256k1_ecdsa_signature_normalize(&ctx, &sig2, &sig); BOOL(r);
        r = secp256k1_ecdsa_signature_serialize_der(&ctx, out, &ol, &sig); __CPROVER_assert(r == 1 && ol <= 72, "a parsed signature serializes to at most 72 DER bytes");
        r = secp256k1_ecdsa_signature_serialize_compact(&ctx, out, &sig2); __CPROVER_assert(r == 1, "compact serialization succeeds");
#ifndef DERONLY
        r = secp256k1_ecdsa_verify(&ctx, &sig, in.a32, &in.pk); BOOL(r);
#endif
        NOCB();
#if !defined(DERLEN) || DERLEN >= 8
        __CPROVER_assert(0, "witness: a signature parses");
#endif
    }
#ifndef DERLEN
    free(buf);
#else
#if DERLEN < 8
    __CPROVER_assert(0, "witness: end reached (no DER signature is shorter than 8 bytes)");
#endif
#endif
}
void harness_recoverable(void) {
    secp256k1_context ctx; in_t in = nondet_in(); secp256k1_ecdsa_recoverable_signature rs; secp256k1_ecdsa_signature sig; secp256k1_pubkey pk; unsigned char o64[64]; int r, rid = -1;
    verif_ctx_init(&ctx); __CPROVER_assume(in.recid >= 0 && in.recid <= 3);      /* documented range of the recovery id argument */
    r = secp256k1_ecdsa_recoverable_signature_parse_compact(&ctx, &rs, in.k64, in.recid); BOOL(r); NOCB();
    if (r) {
        r = secp256k1_ecdsa_recoverable_signature_convert(&ctx, &sig, &rs); __CPROVER_assert(r == 1, "convert succeeds");
        r = secp256k1_ecdsa_recoverable_signature_serialize_compact(&ctx, o64, &rid, &rs); __CPROVER_assert(r == 1 && rid == in.recid, "serialize returns the recovery id");
        r = secp256k1_ecdsa_recover(&ctx, &pk, &rs, in.a32); BOOL(r);
        NOCB(); __CPROVER_assert(0, "witness: a recoverable signature parses");
    }
}
/* C. Schnorr signatures over messages of any length */
void harness_schnorr(void) {
    secp256k1_context ctx; in_t in = nondet_in(); unsigned char *msg; size_t len = in.len; int r;
    verif_ctx_init(&ctx); __CPROVER_assume(len <= MAXLEN); CANON(in.xpk); msg = exact_buf(len);
    r = secp256k1_schnorrsig_verify(&ctx, in.k64, (in.f & 1) && len == 0 ? NULL : msg, len, &in.xpk); BOOL(r); NOCB();
    __CPROVER_assert(!r, "witness: acceptance reachable"); free(msg);
}
/* D. MuSig objects */
#ifndef MPART
#define MPART 0
#endif
void harness_musig(void) {
    secp256k1_context ctx; in_t in = nondet_in(); secp256k1_musig_pubnonce pn; secp256k1_musig_aggnonce an, an2; secp256k1_musig_partial_sig ps; secp256k1_musig_session ses;
    const secp256k1_musig_pubnonce *pns[2]; const secp256k1_musig_partial_sig *pss[1]; unsigned char o66[66], o32[32], sig64[64]; int r, r2, rp;
    verif_ctx_init(&ctx); CANON(in.pk);
    __CPROVER_assume(memcmp(in.cache.data, secp256k1_musig_keyagg_cache_magic, 4) == 0 && be_nat(&in.cache.data[4]) != 0);      /* a cache as pubkey_agg leaves it */
    r = secp256k1_musig_pubnonce_parse(&ctx, &pn, in.k66); BOOL(r); NOCB(); rp = r;
#if MPART == 0
    if (r) {
        r2 = secp256k1_musig_pubnonce_serialize(&ctx, o66, &pn); __CPROVER_assert(r2 == 1, "parsed pubnonce serializes");
        pns[0] = &pn; pns[1] = &pn; r2 = secp256k1_musig_nonce_agg(&ctx, &an2, pns, 2); __CPROVER_assert(r2 == 1, "parsed pubnonces aggregate");
        r2 = secp256k1_musig_aggnonce_serialize(&ctx, o66, &an2); __CPROVER_assert(r2 == 1, "aggregate serializes");
        __CPROVER_assert(!(in.f & 4), "witness: a pubnonce parses");
    }
#else
    r = secp256k1_musig_aggnonce_parse(&ctx, &an, in.k66b); BOOL(r); NOCB();
    if (r) {
        r2 = secp256k1_musig_aggnonce_serialize(&ctx, o66, &an); __CPROVER_assert(r2 == 1, "parsed aggnonce serializes");
        r2 = secp256k1_musig_nonce_process(&ctx, &ses, &an, in.a32, &in.cache, (in.f & 1) ? NULL : &in.pk); BOOL(r2);
        if (r2) {
            int par = -1; r2 = secp256k1_musig_nonce_parity(&ctx, &par, &ses); __CPROVER_assert(r2 == 1 && (par == 0 || par == 1), "session parity is a bit");
            r2 = secp256k1_musig_partial_sig_parse(&ctx, &ps, in.b32); BOOL(r2);
            if (r2) {
                r2 = secp256k1_musig_partial_sig_serialize(&ctx, o32, &ps); __CPROVER_assert(r2 == 1, "parsed partial signature serializes");
                pss[0] = &ps; r2 = secp256k1_musig_partial_sig_agg(&ctx, sig64, &ses, pss, 1); __CPROVER_assert(r2 == 1, "parsed partial signature aggregates");
                if (rp) { r2 = secp256k1_musig_partial_sig_verify(&ctx, &ps, &pn, &in.pk, &in.cache, &ses); BOOL(r2); }
                __CPROVER_assert(!(in.f & 8), "witness: aggnonce and partial signature parse");
            }
        }
    }
#endif
    NOCB();
}
/* E. ECDSA adaptor signatures */
void harness_adaptor(void) {
    secp256k1_context ctx; in_t in = nondet_in(); secp256k1_ecdsa_signature sig; unsigned char dk[32]; int r;
    verif_ctx_init(&ctx); CANON(in.pk); CANON(in.pk2);
#ifdef ADAPT_VERIFY
    r = secp256k1_ecdsa_adaptor_verify(&ctx, in.s162, &in.pk, in.a32, &in.pk2); BOOL(r); __CPROVER_assert(!r, "witness: adaptor_verify accepts"); (void)sig; (void)dk;
#else
    r = secp256k1_ecdsa_adaptor_decrypt(&ctx, &sig, in.b32, in.s162); BOOL(r);
    if (r) { r = secp256k1_ecdsa_adaptor_recover(&ctx, dk, &sig, in.s162, &in.pk2); BOOL(r); __CPROVER_assert(0, "witness: decrypt succeeds"); }
#endif
    NOCB();
}
/* G. ElligatorSwift */
static int xdh_hash(unsigned char *output, const unsigned char *x32, const unsigned char *ell_a64, const unsigned char *ell_b64, void *data) {
    (void)data; __CPROVER_assert(__CPROVER_r_ok(x32, 32) && __CPROVER_r_ok(ell_a64, 64) && __CPROVER_r_ok(ell_b64, 64), "hash callback gets readable buffers"); output[0] = x32[0] ^ ell_a64[63] ^ ell_b64[63]; return nondet_int() & 1;
}
void harness_ellswift(void) {
    secp256k1_context ctx; in_t in = nondet_in(); secp256k1_pubkey pk; unsigned char out[32]; int r;
    verif_ctx_init(&ctx); __CPROVER_assume(in.party == 0 || in.party == 1);
    r = secp256k1_ellswift_decode(&ctx, &pk, in.k64); __CPROVER_assert(r == 1, "every 64-byte string decodes"); NOCB();
    r = secp256k1_ellswift_xdh(&ctx, out, in.k64, in.k64b, in.a32, in.party, xdh_hash, NULL); BOOL(r); NOCB();
}
/* H. commitments and generators */
void harness_commitment(void) {
    secp256k1_context ctx; in_t in = nondet_in(); secp256k1_pedersen_commitment c1, c2; secp256k1_generator g; const secp256k1_pedersen_commitment *pos[1], *neg[1]; unsigned char o33[33]; int r, r1, r2;
    verif_ctx_init(&ctx);
    r1 = secp256k1_pedersen_commitment_parse(&ctx, &c1, in.c33a); BOOL(r1); r2 = secp256k1_pedersen_commitment_parse(&ctx, &c2, in.c33b); BOOL(r2); NOCB();
    if (r1 && r2) {
        r = secp256k1_pedersen_commitment_serialize(&ctx, o33, &c1); __CPROVER_assert(r == 1, "parsed commitment serializes");
        pos[0] = &c1; neg[0] = &c2; r = secp256k1_pedersen_verify_tally(&ctx, pos, 1, neg, 1); BOOL(r); __CPROVER_assert(0, "witness: commitments parse");
    }
    r = secp256k1_generator_parse(&ctx, &g, in.g33); BOOL(r);
    if (r) { r = secp256k1_generator_serialize(&ctx, o33, &g); __CPROVER_assert(r == 1, "parsed generator serializes"); r = secp256k1_pedersen_commit(&ctx, &c1, in.a32, 5, &g); BOOL(r); }
    NOCB();
}
/* M. sign-to-contract openings */
void harness_s2c(void) {
    secp256k1_context ctx; in_t in = nondet_in(); secp256k1_ecdsa_s2c_opening op; secp256k1_ecdsa_signature sig; unsigned char o33[33]; int r;
    verif_ctx_init(&ctx);
    r = secp256k1_ecdsa_s2c_opening_parse(&ctx, &op, in.c33a); BOOL(r); NOCB();
    if (r) {
        r = secp256k1_ecdsa_s2c_opening_serialize(&ctx, o33, &op); __CPROVER_assert(r == 1, "parsed opening serializes");
        r = secp256k1_ecdsa_signature_parse_compact(&ctx, &sig, in.k64);
        if (r) { r = secp256k1_ecdsa_s2c_verify_commit(&ctx, &sig, in.a32, &op); BOOL(r); }
        NOCB(); __CPROVER_assert(0, "witness: an opening parses");
    }
}
