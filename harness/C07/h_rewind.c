/* C07: rangeproof_rewind_inner -- the message copy is bounded by the caller's length, indices stay inside s[128] / ev[128] / prep[4096],
 * for every ring-scalar / challenge / recovered-randomness value.  Ring layout class assigned (what verify_impl can hand over). */
#include "cfg_full.h"
#include "secp256k1.c"
#include "vcommon.h"
#define W_FIELD
#define W_SCALAR
#define W_ECMULT
#define W_SHA_API
#include "w_stubs.h"
#if MANT == 0
#define RINGS 1
#define NPUB 1
#define RSLAST 1
#else
#define RINGS ((MANT + 1) / 2)
#define NPUB (((MANT >> 1) << 2) + ((MANT & 1) ? 2 : 0))
#define RSLAST ((MANT & 1) ? 2 : 4)
#endif
/* the prover's randomness as re-derived from the nonce: arbitrary scalars and an arbitrary 4 kB pad */
int STUB_secp256k1_rangeproof_genrand(const secp256k1_hash_ctx *hash_ctx, secp256k1_scalar *sec, secp256k1_scalar *s, unsigned char *message, size_t *rsizes, size_t rings, const unsigned char *nonce, const secp256k1_ge *commit, const unsigned char *proof, size_t len, const secp256k1_ge *genp) {
    size_t i; (void)hash_ctx; (void)rsizes; (void)nonce; (void)commit; (void)proof; (void)len; (void)genp;
    __CPROVER_assert(rings == RINGS, "genrand gets the ring count");
    for (i = 0; i < RINGS; i++) sec[i] = verif_sc(); for (i = 0; i < NPUB; i++) s[i] = verif_sc();
    __CPROVER_havoc_slice(message, 4096);
    return nondet_int() & 1;
}
typedef struct { secp256k1_scalar ev[NPUB], s[NPUB]; unsigned char nonce[32], proof[16]; secp256k1_ge commit, gen; size_t mlen; int nullm, nullmlen; } r_in_t; r_in_t nondet_r_in(void);
void harness_rewind_inner(void) {
    secp256k1_context ctx; r_in_t in = nondet_r_in(); secp256k1_scalar blind; uint64_t v = 1; size_t rsizes[32], mlen = in.mlen, i; unsigned char *m; int r;
    verif_ctx_init(&ctx);
    for (i = 0; i < RINGS; i++) rsizes[i] = (i < RINGS - 1) ? 4 : RSLAST;
    for (i = 0; i < NPUB; i++) { __CPROVER_assume(!secp256k1_scalar_check_overflow(&in.ev[i]) && !secp256k1_scalar_check_overflow(&in.s[i])); }
    __CPROVER_assume(mlen <= 128 * RINGS + 8);
    m = malloc(mlen); __CPROVER_assume(m != NULL);                 /* the caller's message buffer: an object of exactly *mlen bytes */
    r = secp256k1_rangeproof_rewind_inner(secp256k1_get_hash_context(&ctx), &blind, &v, in.nullm ? NULL : m, in.nullmlen ? NULL : &mlen, in.ev, in.s, rsizes, RINGS, in.nonce, &in.commit, in.proof, 10, &in.gen);
    __CPROVER_assert(r == 0 || r == 1, "boolean");
    if (!in.nullmlen) __CPROVER_assert(mlen <= in.mlen, "the recovered message length never exceeds the caller's buffer length");
#if MANT == 0
    __CPROVER_assert(!r, "witness: blinding factor recovered from the single-member ring");
#else
    __CPROVER_assert(!(r && !in.nullm && !in.nullmlen && mlen > 0), "witness: a message is copied out");
#endif
    __CPROVER_assert(verif_illegal_count == 0 && verif_error_count == 0, "no callbacks");
    free(m);
}
