/* C08 (engine W): Pedersen commitments, blind-sum helpers, tally and the two 33-byte parsers at real width. */
#include "cfg_full.h"
#include "secp256k1.c"
#include "vcommon.h"
#define W_FIELD_TRANSPARENT
#define W_OWN_ISSQUARE
#define W_SCALAR_UF
#define W_SHA_HAVOC
#include "w_stubs.h"
#define GLUE_ADD
#define GLUE_MAX 8
#include "w_glue.h"
#define N verif_N()
#define P verif_P()
static bvw addmod(bvw a, bvw b) { bvw t = a + b; return t >= N ? t - N : t; }   /* a, b < n */
static bvw negmod(bvw a) { return a == 0 ? 0 : N - a; }
static int sq_calls, sq_ret[4], onc_calls, onc_ret, xq_calls, xq_ret;
int STUB_secp256k1_fe_impl_is_square_var(const secp256k1_fe *x) { int r = nondet_int() & 1; (void)x; if (sq_calls < 4) sq_ret[sq_calls] = r; sq_calls++; return r; }
int STUB_secp256k1_ge_x_on_curve_var(const secp256k1_fe *x) { (void)x; onc_calls++; onc_ret = nondet_int() & 1; return onc_ret; }
int STUB_secp256k1_ge_set_xquad(secp256k1_ge *r, const secp256k1_fe *x) { r->x = *x; r->y = verif_fe_m1(); r->infinity = 0; xq_calls++; xq_ret = nondet_int() & 1; return xq_ret; }

typedef struct { unsigned char blind[32]; uint64_t value; secp256k1_generator gen; unsigned char in33[33]; } in_t; in_t nondet_in(void);

void harness_commit(void) {
    secp256k1_context ctx; in_t in = nondet_in(); secp256k1_pedersen_commitment c, c0; int r; bvw b = be_val(in.blind, 32), gx = be_val(&in.gen.data[0], 32), gy = be_val(&in.gen.data[32], 32);
    verif_ctx_init(&ctx); glue_init(); __CPROVER_assume(gx < P && gy < P);          /* generator objects hold canonical coordinates */
    memset(&c, 0xA5, sizeof(c)); c0 = c;
    r = secp256k1_pedersen_commit(&ctx, &c, in.blind, in.value, &in.gen);
    if (b >= N) __CPROVER_assert(r == 0 && glue_calls == 0, "blinding factor >= n refused before any curve operation");
    else {
        __CPROVER_assert(glue_calls == 3 && glue_kind[0] == 2 && (bvw)sc_bv(&glue_ng[0]) == b, "first term: blind * G");
        __CPROVER_assert(glue_kind[1] == 3 && (bvw)sc_bv(&glue_na[1]) == (bvw)in.value && fe_val(&glue_b[1].x) == gx && fe_val(&glue_b[1].y) == gy && !glue_b[1].infinity, "second term: value * H with the 64-bit value as scalar and the supplied generator");
        __CPROVER_assert(glue_kind[2] == 5, "sum of the two terms");
        __CPROVER_assert(r == !glue_R[2].infinity, "commit fails exactly when b >= n or the sum is the point at infinity");
    }
    if (!r) __CPROVER_assert(memcmp(&c, &c0, sizeof(c)) == 0, "failure leaves the commitment object untouched");
    else {
        __CPROVER_assert(be_val(&c.data[1], 32) == fe_val(&glue_R[2].x), "commitment carries x of the sum");
        __CPROVER_assert(c.data[0] == (9 ^ sq_ret[sq_calls - 1]), "prefix 8/9 encodes whether y is a square");
        __CPROVER_assert(0, "witness: commit success");
    }
    __CPROVER_assert(verif_illegal_count == 0, "no illegal callback");
}

#ifndef NB
#define NB 2
#endif
typedef struct { unsigned char b[NB + 1][32]; size_t npos; uint64_t v[NB + 1]; unsigned char gb[NB + 1][32]; size_t nin; } bs_in_t; bs_in_t nondet_bs_in(void);
void harness_blind_sum(void) {
    secp256k1_context ctx; bs_in_t in = nondet_bs_in(); const unsigned char *ptr[NB + 1]; unsigned char out[32]; int r, i, bad = 0; bvw acc = 0;
    verif_ctx_init(&ctx); for (i = 0; i <= NB; i++) ptr[i] = in.b[i];
    memset(out, 0xA5, 32);
    r = secp256k1_pedersen_blind_sum(&ctx, out, ptr, NB, in.npos);
    if (in.npos > NB) __CPROVER_assert(r == 0 && verif_illegal_count == 1, "npositive > n is an argument error");
    else {
        for (i = 0; i < NB; i++) { bvw x = be_val(in.b[i], 32); if (x >= N) { bad = 1; x = 0; } acc = addmod(acc, (size_t)i >= in.npos ? negmod(x) : x); }
        __CPROVER_assert(r == !bad, "blind_sum refuses exactly when some blinding factor is >= n");
        if (r) __CPROVER_assert(be_val(out, 32) == acc, "blind_sum == sum of positives minus sum of negatives mod n");
        __CPROVER_assert(!r, "witness: blind_sum success");
    }
}
void harness_blind_generator_blind_sum(void) {
    secp256k1_context ctx; bs_in_t in = nondet_bs_in(); const unsigned char *gb[NB + 1]; unsigned char *bf[NB + 1]; unsigned char last0[32]; int r, i, bad = 0; bvw sum = 0, bl;
    verif_ctx_init(&ctx); for (i = 0; i <= NB; i++) { gb[i] = in.gb[i]; bf[i] = in.b[i]; }
    memcpy(last0, in.b[NB - 1], 32); bl = be_val(last0, 32);
    r = secp256k1_pedersen_blind_generator_blind_sum(&ctx, in.v, gb, bf, NB, in.nin);
    if (in.nin >= NB) __CPROVER_assert(r == 0 && verif_illegal_count == 1, "n_total <= n_inputs is an argument error");
    else {
        for (i = 0; i < NB; i++) { bvw g = be_val(in.gb[i], 32), f = (i == NB - 1) ? bl : be_val(in.b[i], 32), t; if (g >= N || f >= N) { bad = 1; g = 0; f = 0; }
            t = addmod((bvw)uf_scmul((sbv)in.v[i], (sbv)g), f); sum = addmod(sum, (size_t)i < in.nin ? negmod(t) : t); }
        __CPROVER_assert(r == !bad, "blind_generator_blind_sum refuses exactly when some generator blind or blinding factor is >= n");
        if (r) __CPROVER_assert(be_val(in.b[NB - 1], 32) == addmod(bl, negmod(sum)), "last blinding factor := r'_last - sum_i +-(v_i r_i + r'_i)");
        if (!r) __CPROVER_assert(memcmp(in.b[NB - 1], last0, 32) == 0, "refusal leaves the last blinding factor untouched");
        __CPROVER_assert(!r, "witness: success");
    }
}

void harness_commit_parse(void) {
    secp256k1_context ctx; in_t in = nondet_in(); secp256k1_pedersen_commitment c; unsigned char o[33]; int r;
    verif_ctx_init(&ctx);
    r = secp256k1_pedersen_commitment_parse(&ctx, &c, in.in33);
    __CPROVER_assert(r == ((in.in33[0] == 8 || in.in33[0] == 9) && be_val(in.in33 + 1, 32) < P && onc_calls == 1 && onc_ret == 1), "commitment_parse accepts exactly prefix 8/9, x < p, x on the curve");
    if (r) { __CPROVER_assert(secp256k1_pedersen_commitment_serialize(&ctx, o, &c) && memcmp(o, in.in33, 33) == 0, "serialize(parse(x)) == x"); __CPROVER_assert(0, "witness: accepted"); }
    __CPROVER_assert(verif_illegal_count == 0, "no illegal callback");
}
void harness_generator_parse(void) {
    secp256k1_context ctx; in_t in = nondet_in(); secp256k1_generator g; unsigned char o[33]; int r;
    verif_ctx_init(&ctx);
    r = secp256k1_generator_parse(&ctx, &g, in.in33);
    __CPROVER_assert(r == ((in.in33[0] == 10 || in.in33[0] == 11) && be_val(in.in33 + 1, 32) < P && xq_calls == 1 && xq_ret == 1), "generator_parse accepts exactly prefix 10/11, x < p, x on the curve");
    if (r) { __CPROVER_assert(memcmp(&g.data[0], in.in33 + 1, 32) == 0 && be_val(&g.data[32], 32) < P, "generator object holds canonical (x, y)");
             __CPROVER_assert(secp256k1_generator_serialize(&ctx, o, &g) && memcmp(o + 1, in.in33 + 1, 32) == 0 && (o[0] == 10 || o[0] == 11), "serialize reproduces x with a canonical prefix"); __CPROVER_assert(0, "witness: accepted"); }
    __CPROVER_assert(verif_illegal_count == 0, "no illegal callback");
}

#ifndef PC
#define PC 1
#define NC 1
#endif
typedef struct { secp256k1_pedersen_commitment p[PC + 1], n[NC + 1]; } t_in_t; t_in_t nondet_t_in(void);
void harness_tally(void) {
    secp256k1_context ctx; t_in_t in = nondet_t_in(); const secp256k1_pedersen_commitment *pp[PC + 1], *np[NC + 1]; int r, i;
    verif_ctx_init(&ctx); glue_init(); for (i = 0; i <= PC; i++) pp[i] = &in.p[i]; for (i = 0; i <= NC; i++) np[i] = &in.n[i];
    r = secp256k1_pedersen_verify_tally(&ctx, pp, PC, np, NC);
    __CPROVER_assert(glue_calls == PC + NC, "one addition per commitment");
    for (i = 0; i < NC; i++) __CPROVER_assert(glue_kind[i] == 4 && fe_val(&glue_b[i].x) % P == be_val(&in.n[i].data[1], 32) % P, "negative commitments are summed first, in order");
    for (i = 0; i < PC; i++) __CPROVER_assert(glue_kind[NC + i] == 4 && fe_val(&glue_b[NC + i].x) % P == be_val(&in.p[i].data[1], 32) % P, "then the positive commitments, in order");
#if NC > 0 && PC > 0
    __CPROVER_assert(glue_a[NC].infinity == glue_R[NC - 1].infinity && (glue_a[NC].infinity || (fe_val(&glue_a[NC].x) == fe_val(&glue_R[NC - 1].x) && fe_val(&glue_a[NC].y) % P == (P - fe_val(&glue_R[NC - 1].y)) % P)), "the negative sum is negated before adding the positives");
#endif
#if PC + NC == 0
    __CPROVER_assert(r == 1, "empty lists balance");
#else
    __CPROVER_assert(r == glue_R[PC + NC - 1].infinity, "tally == 1 exactly when positives minus negatives is the point at infinity");
    __CPROVER_assert(!r, "witness: balanced"); __CPROVER_assert(r, "witness: unbalanced");
#endif
    __CPROVER_assert(verif_illegal_count == 0, "no illegal callback");
}
