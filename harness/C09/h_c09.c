/* C09: range proofs the library creates -- (1) parameter derivation (engine B, bit-precise, per OUTPUT exponent class),
 * (2) proof assembly: failure set, buffer/message capacity, header written == header decoded, size bound (engine W, per mantissa class,
 * parameter derivation replaced by an arbitrary result satisfying the post-condition (1) proves, ring signer / randomness / curve opaque). */
#include "cfg_full.h"
#include "secp256k1.c"
#include "vcommon.h"
typedef unsigned __CPROVER_bitvector[192] bv192;

#ifdef PARAMS
typedef struct { uint64_t value, minv; int exp, min_bits; } p_in_t; p_in_t nondet_p_in(void);
void harness_params(void) {
    p_in_t in = nondet_p_in(); uint64_t v, minv = in.minv, scale; size_t rings, rsizes[32], npub, secidx[32], i, np = 0; int mantissa, exp = in.exp, min_bits = in.min_bits, r, k;
    bv192 LIM = (((bv192)1) << 64) - 1, t, sc, maxv;
    __CPROVER_assume(in.minv <= in.value && in.min_bits >= 0 && in.min_bits <= 64 && in.exp >= -1 && in.exp <= 18);    /* what rangeproof_sign_impl lets through */
    r = secp256k1_range_proveparams(&v, &rings, rsizes, &npub, secidx, &minv, &mantissa, &scale, &exp, &min_bits, in.value);
    /* documented failure set: a range (exp >= 0, min_value != 2^64-1) cannot be coded when value and min_value are both non-zero and one is >= 2^63-1 */
    __CPROVER_assert(r == !(in.exp >= 0 && in.minv != UINT64_MAX && ((in.minv && in.value > INT64_MAX) || (in.value && in.minv >= INT64_MAX))), "parameter derivation fails exactly in the documented 2^63 cases");
    if (!r) return;
#ifdef EXPOUT
    __CPROVER_assume(exp == EXPOUT && (rsizes[0] > 1));       /* output class: a range proof with decimal exponent EXPOUT */
#else
    __CPROVER_assume(rsizes[0] == 1);                          /* output class: exact-value proof */
#endif
    __CPROVER_assert(exp >= 0 && exp <= 18 && exp <= (in.exp < 0 ? 0 : in.exp), "exponent in 0..18 and never above the requested one");
    __CPROVER_assert(rings >= 1 && rings <= 32 && npub <= 128, "ring layout fits the fixed arrays (rings <= 32, npub <= 128)");
    if (rsizes[0] > 1) {
        __CPROVER_assert(mantissa >= 1 && mantissa <= 64 && rings == (size_t)((mantissa + 1) >> 1) && mantissa >= min_bits, "mantissa in 1..64, rings = ceil(mantissa/2), at least the (clamped) requested bits");
        for (i = 0; i < 32; i++) if (i < rings) { __CPROVER_assert(rsizes[i] == ((i < rings - 1 || !(mantissa & 1)) ? 4u : 2u) && secidx[i] < rsizes[i] && secidx[i] == ((v >> (2 * i)) & 3), "ring sizes 4,..,4[,2]; secret digit = base-4 digit of v, inside its ring"); np += rsizes[i]; }
        __CPROVER_assert(np == npub, "npub is the sum of the ring sizes");
        __CPROVER_assert(mantissa == 64 || (v >> mantissa) == 0, "v fits in mantissa bits");
        /* arithmetic written in the code's own shape: v * 10^exp by repeated multiplication in 192 bits */
        t = v; sc = 1; for (k = 0; k < 18; k++) if (k < exp) { t *= 10; sc *= 10; }
        __CPROVER_assert((bv192)scale == sc, "scale == 10^exp");
        __CPROVER_assert(t + (bv192)minv == (bv192)in.value, "v * 10^exp + min_value == value (no wrap)");
        maxv = (mantissa == 64 ? LIM : ((((bv192)1) << mantissa) - 1)) * sc + (bv192)minv;
        __CPROVER_assert(maxv <= LIM, "advertised maximum min_value + (2^mantissa - 1) * 10^exp stays below 2^64 (the verifier's overflow checks accept the header)");
        __CPROVER_assert((bv192)minv <= (bv192)in.value && (bv192)in.value <= maxv, "min <= value <= max");
#ifdef EXPOUT
        __CPROVER_assert(0, "witness: class reachable");
#endif
    } else {
        __CPROVER_assert(rings == 1 && npub == 2 && v == 0 && minv == in.value && exp == 0 && scale == 1 && secidx[0] == 0, "exact-value proof: one ring of one member, min_value = value");
#ifndef EXPOUT
        __CPROVER_assert(0, "witness: exact-value class reachable");
#endif
    }
}
#endif

#ifdef SIGN
#define W_FIELD
#define W_SCALAR
#define W_ECMULT
#define W_SHA_API
#include "w_stubs.h"
#if MANT == 0
#define RINGS 1
#define NPUB 2
#define RS0 1
#else
#define RINGS ((MANT + 1) / 2)
#define NPUB (((MANT >> 1) << 2) + ((MANT & 1) ? 2 : 0))
#define RS0 ((MANT == 1) ? 2 : 4)
#endif
/* parameter derivation: arbitrary result satisfying what harness_params proves, mantissa class assigned */
static uint64_t pp_v, pp_min, pp_scale; static int pp_exp, pp_ret, pp_calls; static size_t pp_secidx[32];
int STUB_secp256k1_range_proveparams(uint64_t *v, size_t *rings, size_t *rsizes, size_t *npub, size_t *secidx, uint64_t *min_value, int *mantissa, uint64_t *scale, int *exp, int *min_bits, uint64_t value) {
    size_t i; int k; bv192 t, LIM = (((bv192)1) << 64) - 1; (void)min_bits; pp_calls++;
    pp_ret = nondet_int() & 1;      /* outputs are assigned on every path (a value that is constant on one path only is not a constant for symbolic execution) */
    *rings = RINGS; *npub = NPUB; *mantissa = MANT;
    pp_v = nondet_u64(); pp_exp = nondet_int(); __CPROVER_assume(pp_exp >= 0 && pp_exp <= 18);
#if MANT == 0
    rsizes[0] = 1; secidx[0] = 0; pp_v = 0; pp_exp = 0; pp_scale = 1; pp_min = value;
#else
    __CPROVER_assume(MANT == 64 || (pp_v >> MANT) == 0);
    for (i = 0; i < RINGS; i++) { rsizes[i] = (i < RINGS - 1 || !(MANT & 1)) ? 4 : 2; secidx[i] = (pp_v >> (2 * i)) & 3; pp_secidx[i] = secidx[i]; }
    t = pp_v; pp_scale = 1; for (k = 0; k < 18; k++) if (k < pp_exp) { t *= 10; pp_scale *= 10; }
    __CPROVER_assume(t <= (bv192)value && ((MANT == 64 ? LIM : ((((bv192)1) << MANT) - 1)) * (bv192)pp_scale + ((bv192)value - t)) <= LIM);
    pp_min = value - (uint64_t)t;
#endif
    *v = pp_v; *exp = pp_exp; *scale = pp_scale; *min_value = pp_min; return pp_ret;
}
static int gr_ret, gr_calls; static size_t gr_len;
int STUB_secp256k1_rangeproof_genrand(const secp256k1_hash_ctx *hash_ctx, secp256k1_scalar *sec, secp256k1_scalar *s, unsigned char *message, size_t *rsizes, size_t rings, const unsigned char *nonce, const secp256k1_ge *commit, const unsigned char *proof, size_t len, const secp256k1_ge *genp) {
    size_t i; (void)hash_ctx; (void)message; (void)rsizes; (void)nonce; (void)commit; (void)genp; gr_calls++; gr_len = len;
    __CPROVER_assert(rings == RINGS && __CPROVER_r_ok(proof, len), "genrand sees the header written so far");
    for (i = 0; i < RINGS; i++) sec[i] = verif_sc(); for (i = 0; i < NPUB; i++) s[i] = verif_sc();
    gr_ret = nondet_int() & 1; return gr_ret;
}
void STUB_secp256k1_pedersen_ecmult(const secp256k1_ecmult_gen_context *ecmult_gen_ctx, secp256k1_gej *rj, const secp256k1_scalar *sec, uint64_t value, const secp256k1_ge *genp) { (void)ecmult_gen_ctx; (void)sec; (void)value; (void)genp; *rj = verif_gej_any(); }
void STUB_secp256k1_rangeproof_pub_expand(secp256k1_gej *pubs, int exp, size_t *rsizes, size_t rings, const secp256k1_ge *genp) { (void)pubs; (void)exp; (void)rsizes; (void)genp; __CPROVER_assert(rings == RINGS, "pub_expand gets the ring count"); }
static int bs_ret, bs_calls; static unsigned char *bs_e0;
int STUB_secp256k1_borromean_sign(const secp256k1_hash_ctx *hash_ctx, const secp256k1_ecmult_gen_context *ecmult_gen_ctx, unsigned char *e0, secp256k1_scalar *s, const secp256k1_gej *pubs, const secp256k1_scalar *k, const secp256k1_scalar *sec, const size_t *rsizes, const size_t *secidx, size_t nrings, const unsigned char *m, size_t mlen) {
    struct d32 { unsigned char b[32]; } nondet_d32(void); struct d32 d = nondet_d32(); (void)hash_ctx; (void)ecmult_gen_ctx; (void)s; (void)pubs; (void)k; (void)sec; (void)rsizes; (void)secidx; (void)m;
    bs_calls++; bs_e0 = e0; __CPROVER_assert(nrings == RINGS && mlen == 32, "ring signer gets the ring count and a 32-byte message"); memcpy(e0, d.b, 32); bs_ret = nondet_int() & 1; return bs_ret;
}
typedef struct { uint64_t value, minv; int exp, min_bits; size_t plen, msg_len, extra_len; unsigned char blind[32], nonce[32], msg[8], extra[8]; secp256k1_ge commit, gen; int nullmsg; } s_in_t; s_in_t nondet_s_in(void);
#define HDRMAX 10
#define BODY (32 * (NPUB + RINGS - 1) + 32 + ((RINGS + 6) >> 3))
void harness_sign(void) {
    secp256k1_context ctx; s_in_t in = nondet_s_in(); unsigned char *proof; size_t plen = in.plen, hdr, need; int r, badargs, overflow; secp256k1_scalar b;
    verif_ctx_init(&ctx);
#ifndef MSGLEN
#define MSGLEN 0
#endif
    in.msg_len = MSGLEN;        /* message length class (assigned: a symbolic-length copy into the 4 kB scratch area does not fit in memory) */
    __CPROVER_assume(in.plen <= HDRMAX + BODY + 8 && in.msg_len <= 8 && in.extra_len <= 8);
    proof = malloc(plen); __CPROVER_assume(proof != NULL);            /* an output object of EXACTLY *plen bytes */
    r = secp256k1_rangeproof_sign_impl(secp256k1_get_hash_context(&ctx), &ctx.ecmult_gen_ctx, proof, &plen, in.minv, &in.commit, in.blind, in.nonce, in.exp, in.min_bits, in.value,
                                       in.nullmsg ? NULL : in.msg, in.nullmsg ? 0 : in.msg_len, in.extra, in.extra_len, &in.gen);
    badargs = in.plen < 65 || in.minv > in.value || in.min_bits > 64 || in.min_bits < 0 || in.exp < -1 || in.exp > 18;
    __CPROVER_assert(r == 0 || r == 1, "boolean");
    if (badargs) __CPROVER_assert(r == 0 && pp_calls == 0 && plen == in.plen, "documented-invalid arguments (buffer < 65, min > value, min_bits / exp out of range) fail before anything is written");
    else if (!pp_ret) __CPROVER_assert(r == 0, "unrepresentable range fails");
    else {
        hdr = 1 + (RS0 > 1 ? 1 : 0) + (pp_min ? 8 : 0); need = hdr + BODY;
        secp256k1_scalar_set_b32(&b, in.blind, &overflow);
        if (!in.nullmsg && in.msg_len > 0 && in.msg_len > 128 * (RINGS - 1)) __CPROVER_assert(r == 0 && gr_calls == 0, "message longer than 128*(rings-1) refused");
        else if (in.plen < need) __CPROVER_assert(r == 0 && gr_calls == 0, "buffer smaller than the proof refused before any body byte is written");
        else {
            __CPROVER_assert(gr_calls == 1 && gr_len == hdr, "randomness derived over exactly the header bytes");
            if (!gr_ret || overflow) __CPROVER_assert(r == 0, "failing randomness or blinding factor >= n => failure");
            if (r) {
                size_t off = 0; int e2, m2, ok; uint64_t sc2, mn2, mx2;
                /* the exact-value form reserves room for two ring members (npub = 2) but writes one */
                __CPROVER_assert(plen == need - (MANT == 0 ? 32 : 0) && plen <= in.plen, "reported length == header + body, never above the offered buffer");
                __CPROVER_assert(bs_calls == 1 && bs_ret == 1 && bs_e0 == proof + hdr + ((RINGS + 6) >> 3) + 32 * (RINGS - 1), "ring signature placed after sign bytes and digit commitments");
                ok = secp256k1_rangeproof_getheader_impl(&off, &e2, &m2, &sc2, &mn2, &mx2, proof, plen);
                __CPROVER_assert(ok == 1 && off == hdr, "the written header decodes, with the same length");
                __CPROVER_assert(mn2 == pp_min && (RS0 > 1 ? (e2 == pp_exp && m2 == MANT && sc2 == pp_scale) : (e2 == -1 && m2 == 0)) && mn2 <= in.value && in.value <= mx2, "decoded (exp, mantissa, scale, min) are the prover's and min <= value <= max");
                __CPROVER_assert(plen <= secp256k1_rangeproof_max_size(&ctx, mx2, 0), "proof no longer than rangeproof_max_size(max_value, 0)");
                __CPROVER_assert(0, "witness: a proof is created");
            }
        }
    }
    __CPROVER_assert(verif_illegal_count == 0 && verif_error_count == 0, "no callbacks");
    free(proof);
}
#endif
