/* C10/C11/C16 shared: the Borromean ring verifier (engine W) == reference written from the comment block in borromean_impl.h.
 * Curve results free and recorded, SHA-256 compression an uninterpreted function shared with the reference, ring layout assigned (RS0[,RS1]). */
#include "cfg_full.h"
#include "secp256k1.c"
#include "vcommon.h"
#define W_FIELD_TRANSPARENT
#define W_SCALAR_UF
#define W_SHA_UF
#include "w_stubs.h"
#define REF_SHA_MAX 192
#include "ref_sha.h"
#define GLUE_MAX 8
#include "w_glue.h"
#define N verif_N()
#define P verif_P()
#ifndef RS1
#define RS1 0
#endif
#define NR (RS1 ? 2 : 1)
#define NP (RS0 + RS1)
static void ser33_of(unsigned char *o, bvw x, bvw y) { o[0] = 2 | (unsigned char)(y & 1); be32_of(o + 1, x); }
static bvw ref_bhash(const unsigned char *e, size_t elen, const unsigned char *m, unsigned ridx, unsigned eidx) {
    unsigned char cat[33 + 32 + 8], h[32]; memcpy(cat, e, elen); memcpy(cat + elen, m, 32);
    cat[elen + 32] = ridx >> 24; cat[elen + 33] = ridx >> 16; cat[elen + 34] = ridx >> 8; cat[elen + 35] = ridx;
    cat[elen + 36] = eidx >> 24; cat[elen + 37] = eidx >> 16; cat[elen + 38] = eidx >> 8; cat[elen + 39] = eidx;
    ref_sha256(cat, elen + 40, h); return be_val(h, 32);
}
typedef struct { unsigned char e0[32], m[32]; secp256k1_scalar s[NP]; secp256k1_gej pubs[NP]; int want_ev; } in_t; in_t nondet_in(void);
/* reference verdict; *ncalls = number of curve evaluations the specification performs before deciding */
static int ref_verify(const in_t *in, int *ncalls) {
    static const size_t rs[2] = {RS0, RS1}; unsigned char cat[33 * NR + 32], t33[33], h[32]; size_t i, j, count = 0; bvw en;
    *ncalls = 0;
    for (i = 0; i < NR; i++) {
        en = ref_bhash(in->e0, 32, in->m, (unsigned)i, 0);
        for (j = 0; j < rs[i]; j++) {
            if (en >= N || sc_val(&in->s[count]) == 0 || en == 0 || in->pubs[count].infinity) return 0;
            __CPROVER_assert(glue_calls > (int)count && glue_kind[count] == 1 && (bvw)sc_bv(&glue_na[count]) == en && !glue_ng_null[count] && sc_bv(&glue_ng[count]) == sc_bv(&in->s[count])
                             && memcmp(&glue_a[count].x, &in->pubs[count].x, sizeof(secp256k1_fe)) == 0 && memcmp(&glue_a[count].y, &in->pubs[count].y, sizeof(secp256k1_fe)) == 0
                             && memcmp(&glue_a[count].z, &in->pubs[count].z, sizeof(secp256k1_fe)) == 0, "member evaluation: r = s_ij G + e P_ij with e chained from the previous member");
            (*ncalls)++;
            if (glue_R[count].infinity) return 0;
            ser33_of(t33, fe_val(&glue_R[count].x), fe_val(&glue_R[count].y));
            if (j != rs[i] - 1) en = ref_bhash(t33, 33, in->m, (unsigned)i, (unsigned)(j + 1));
            else memcpy(cat + 33 * i, t33, 33);
            count++;
        }
    }
    memcpy(cat + 33 * NR, in->m, 32); ref_sha256(cat, 33 * NR + 32, h);
    return memcmp(in->e0, h, 32) == 0;
}
void harness_borromean_verify(void) {
    in_t in = nondet_in(); secp256k1_hash_ctx hc; secp256k1_scalar ev[NP]; size_t rsizes[2] = {RS0, RS1}; int r, ref, nc, i;
    hc.fn_sha256_compression = secp256k1_sha256_transform; glue_init();
    for (i = 0; i < NP; i++) { __CPROVER_assume(!secp256k1_scalar_check_overflow(&in.s[i])); in.pubs[i].infinity &= 1; }
    r = secp256k1_borromean_verify(&hc, in.want_ev ? ev : NULL, in.e0, in.s, in.pubs, rsizes, NR, in.m, 32);
    ref = ref_verify(&in, &nc);
    __CPROVER_assert(r == ref, "borromean_verify == reference ring verifier (zero scalar, zero/overflowing challenge, infinite key or intermediate point => reject; accept iff e0 == H(r_0 || .. || m))");
    __CPROVER_assert(glue_calls == nc, "no curve evaluation beyond the specification's");
    __CPROVER_assert(!r, "witness: acceptance reachable");
    __CPROVER_assert(!(nc == NP && !r), "witness: full evaluation ending in a hash mismatch");
}
