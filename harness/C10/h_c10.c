/* C10: range-proof verification is consensus-exact -- header decoder (engine B) and structural rejections of verify_impl (engine W). */
#include "cfg_full.h"
#include "secp256k1.c"
#include "vcommon.h"
typedef unsigned __CPROVER_bitvector[192] bv192;

#ifdef HDR
/* (1) header decoder == 192-bit-arithmetic reference written from the format description; exponent-field class assigned */
typedef struct { size_t plen; } hdr_in_t; hdr_in_t nondet_hdr_in(void);
void harness_hdr(void) {
    hdr_in_t in = nondet_hdr_in(); unsigned char proof[16]; /* symbolic */ size_t offset = 0; int exp, mantissa, ret; uint64_t scale, minv, maxv;
    proof[0] = (proof[0] & 0xE0) | EXPC;               /* class: exponent field assigned, the three flag bits symbolic */
    ret = secp256k1_rangeproof_getheader_impl(&offset, &exp, &mantissa, &scale, &minv, &maxv, proof, in.plen);
    {
        int has_range = (proof[0] & 64) != 0, has_min = (proof[0] & 32) != 0, ok = 1; size_t off = 1; int e = -1, m = 0, i;
        bv192 mx = 0, mn = 0, sc = 1, LIM = (((bv192)1) << 64) - 1;
        if (in.plen < 65 || (proof[0] & 128)) ok = 0;                                    /* reserved top bit */
        if (ok && has_range) { e = proof[0] & 31; if (e > 18) ok = 0; m = proof[1] + 1; off = 2; if (ok && m > 64) ok = 0; if (ok) mx = (((bv192)1) << m) - 1; }
        if (ok) { for (i = 0; i < EXPC && i < e; i++) { mx *= 10; sc *= 10; } if (mx > LIM) ok = 0; }   /* max * 10^exp must fit in 64 bits */
        if (ok && has_min) { if (in.plen - off < 8) ok = 0; else { for (i = 0; i < 8; i++) mn = (mn << 8) | proof[off + i]; off += 8; } }
        if (ok && mx + mn > LIM) ok = 0;                                                    /* min + max must not wrap */
        __CPROVER_assert(ret == ok, "header accepted exactly when the specification accepts it (reserved bit, exp <= 18, mantissa <= 64, no 2^64 overflow)");
        if (ret) {
            __CPROVER_assert(offset == off && exp == e && mantissa == m, "decoded offset, exponent, mantissa");
            __CPROVER_assert((bv192)minv == mn && (bv192)maxv == mx + mn && (bv192)scale == sc, "reported [min,max] and scale equal the 192-bit reference");
        }
        __CPROVER_assert(!(ret && (EXPC <= 18 ? (has_range && has_min) : !has_range)), "witness: header of this class accepted (with range and minimum when the exponent field is valid, range-less otherwise)");
    }
}
#endif

#ifdef BODY
/* (2) verify_impl, mantissa class MANT (assigned; MANT = 0 means the single-value form), proof length class PLEN_DELTA in {-1,0,+1}:
 * every structural rejection, and hand-over to the ring verifier. */
#define W_FIELD
#define W_SCALAR
#define W_ECMULT
#define W_SHA_API
#include "w_stubs.h"
#if MANT == 0
#define RINGS 1
#define NPUB 1
#else
#define RINGS ((MANT + 1) / 2)
#define NPUB (((MANT >> 1) << 2) + ((MANT & 1) ? 2 : 0))
#endif
#ifndef EXPF
#define EXPF 0
#endif
#ifndef HASMIN
#define HASMIN 0
#endif
#define HDRLEN ((MANT ? 2 : 1) + (HASMIN ? 8 : 0))
#define BODYLEN (32 * (NPUB + RINGS - 1) + 32 + ((RINGS + 6) >> 3))
#define PLEN (HDRLEN + BODYLEN + (PLEN_DELTA))
/* ring verifier and curve-only helper recorded */
static int bor_calls, bor_ret; static size_t bor_nrings; static const unsigned char *bor_e0; static size_t bor_rs[32]; static secp256k1_scalar bor_s0, bor_slast;
int STUB_secp256k1_borromean_verify(const secp256k1_hash_ctx *hash_ctx, secp256k1_scalar *evalues, const unsigned char *e0, const secp256k1_scalar *s, const secp256k1_gej *pubs, const size_t *rsizes, size_t nrings, const unsigned char *m, size_t mlen) {
    size_t i; (void)hash_ctx; (void)evalues; (void)pubs; (void)m;
    __CPROVER_assert(mlen == 32, "ring verifier gets a 32-byte message hash");
    bor_calls++; bor_nrings = nrings; bor_e0 = e0; for (i = 0; i < 32; i++) if (i < nrings) bor_rs[i] = rsizes[i];
    bor_s0 = s[0]; bor_slast = s[NPUB - 1];
    bor_ret = nondet_int() & 1; return bor_ret;
}
void STUB_secp256k1_rangeproof_pub_expand(secp256k1_gej *pubs, int exp, size_t *rsizes, size_t rings, const secp256k1_ge *genp) {
    size_t i; (void)exp; (void)rsizes; (void)genp; __CPROVER_assert(rings == RINGS, "pub_expand gets the header's ring count");
    for (i = 0; i < NPUB; i++) pubs[i] = verif_gej_any();
}
static int xquad_fail_at = -1, xquad_calls;
int STUB_secp256k1_ge_set_xquad(secp256k1_ge *r, const secp256k1_fe *x) { r->x = *x; r->y = verif_fe_m1(); r->infinity = 0; return (xquad_calls++ == xquad_fail_at) ? 0 : 1; }

typedef struct { secp256k1_ge commit, gen; unsigned char extra[8]; size_t extralen; int fail_at, nullextra; unsigned char expf; } body_in_t;
body_in_t nondet_body_in(void);
void harness_body(void) {
    secp256k1_context ctx; body_in_t in = nondet_body_in(); uint64_t minv = 0, maxv = 0; int ret, i, bad_digit = 0, bad_scalar = 0, spare = 0; size_t off;
#ifdef EXACTBUF
    unsigned char proof[PLEN];                          /* C07: an object of exactly plen bytes, so that any read past the declared length is a bounds violation */
#else
    unsigned char proof[HDRLEN + BODYLEN + 2];          /* uninitialised = symbolic; a plain local array so that the assigned header bytes are constants for symbolic execution */
#endif
    verif_ctx_init(&ctx);
    /* header bytes ASSIGNED (class), everything after symbolic */
#if MANT == 0
    proof[0] = HASMIN ? 32 : 0;
#else
    proof[0] = 64 | EXPF | (HASMIN ? 32 : 0); proof[1] = MANT - 1;     /* fully constant header: exponent class EXPF */
#endif
    __CPROVER_assume(in.extralen <= 8);
    xquad_fail_at = in.fail_at;
    ret = secp256k1_rangeproof_verify_impl(secp256k1_get_hash_context(&ctx), NULL, NULL, NULL, NULL, NULL, NULL, &minv, &maxv, &in.commit, proof, PLEN, in.nullextra ? NULL : in.extra, in.nullextra ? 0 : in.extralen, &in.gen);
    __CPROVER_assert(ret == 0 || ret == 1, "boolean result");
#if PLEN_DELTA != 0
    __CPROVER_assert(ret == 0, "truncated proof or proof with a trailing byte rejected");
#else
    off = HDRLEN;
    if ((RINGS - 1) & 7) spare = (proof[off + ((RINGS + 6) >> 3) - 1] >> ((RINGS - 1) & 7)) != 0;
    off += (RINGS + 6) >> 3;
    for (i = 0; i < RINGS - 1; i++) if (be_val(&proof[off + 32 * i], 32) >= verif_P()) bad_digit = 1;
    off += 32 * (RINGS - 1) + 32;
    for (i = 0; i < NPUB; i++) if (be_val(&proof[off + 32 * i], 32) >= verif_N()) bad_scalar = 1;
    if (spare) __CPROVER_assert(ret == 0, "non-zero spare sign bits rejected");
    if (bad_digit) __CPROVER_assert(ret == 0, "digit commitment x >= p rejected");
    if (in.fail_at >= 0 && in.fail_at < RINGS - 1 && !spare) __CPROVER_assert(ret == 0, "off-curve digit commitment rejected");
    if (bad_scalar) __CPROVER_assert(ret == 0, "ring scalar >= n rejected");
    if (ret) {
        __CPROVER_assert(bor_calls == 1 && bor_ret == 1, "accepted => the ring verifier accepted");
        __CPROVER_assert(bor_nrings == RINGS && bor_e0 == &proof[HDRLEN + ((RINGS + 6) >> 3) + 32 * (RINGS - 1)], "ring count and e0 position handed to the ring verifier");
        for (i = 0; i < RINGS; i++) __CPROVER_assert(bor_rs[i] == ((MANT == 0) ? 1u : ((i == RINGS - 1 && (MANT & 1)) ? 2u : 4u)), "ring sizes: 4,...,4[,2] or the single-value ring");
        __CPROVER_assert(be_val(&proof[off], 32) == (bvw)sc_val(&bor_s0) && be_val(&proof[off + 32 * (NPUB - 1)], 32) == (bvw)sc_val(&bor_slast), "first and last ring scalar are the proof's bytes");
        __CPROVER_assert(0, "witness: acceptance reachable");
    }
    if (!spare && !bad_digit && !bad_scalar && !(in.fail_at >= 0 && in.fail_at < RINGS - 1) && bor_calls == 1 && bor_ret == 1) {
        /* the only remaining rejection before the ring verifier is the derived last digit commitment at infinity (opaque curve result) */
        __CPROVER_assert(ret == 1, "structurally valid proof with accepting ring verifier is accepted");
    }
#endif
}

#ifdef REWIND
/* (3) rewind mode of verify_impl (C09): after a successful ring verification and a successful inner rewind, the recovered value and blinding
 * factor are re-committed, compared with the commitment, and handed to the caller -- each output independently of the other being requested */
static int ri_calls, ri_ret; static secp256k1_scalar ri_blind; static uint64_t ri_v; static unsigned char *ri_m; static size_t *ri_mlen;
int STUB_secp256k1_rangeproof_rewind_inner(const secp256k1_hash_ctx *hash_ctx, secp256k1_scalar *blind, uint64_t *v, unsigned char *m, size_t *mlen, secp256k1_scalar *ev, secp256k1_scalar *s, size_t *rsizes, size_t rings, const unsigned char *nonce, const secp256k1_ge *commit, const unsigned char *proof, size_t len, const secp256k1_ge *genp) {
    (void)hash_ctx; (void)ev; (void)s; (void)rsizes; (void)nonce; (void)commit; (void)proof; (void)len; (void)genp; ri_calls++; ri_m = m; ri_mlen = mlen;
    __CPROVER_assert(rings == RINGS, "inner rewind gets the ring count"); ri_blind = verif_sc(); ri_v = nondet_u64(); *blind = ri_blind; *v = ri_v; ri_ret = nondet_int() & 1; return ri_ret;
}
static int pe_calls; static secp256k1_scalar pe_sec; static uint64_t pe_value;
void STUB_secp256k1_pedersen_ecmult(const secp256k1_ecmult_gen_context *ecmult_gen_ctx, secp256k1_gej *rj, const secp256k1_scalar *sec, uint64_t value, const secp256k1_ge *genp) { (void)ecmult_gen_ctx; (void)genp; pe_calls++; pe_sec = *sec; pe_value = value; *rj = verif_gej_any(); }
typedef struct { unsigned char nonce[32], blind0[32], msg[16]; uint64_t v0; size_t outlen; int nb, nv, nm; } rw_in_t; rw_in_t nondet_rw_in(void);
void harness_rewind_out(void) {
    secp256k1_context ctx; body_in_t in = nondet_body_in(); rw_in_t rw = nondet_rw_in(); uint64_t minv = 0, maxv = 0, vout = rw.v0, expect, mn = 0; int ret, i; unsigned char blindout[32]; unsigned char proof[PLEN]; size_t outlen = rw.outlen;
    verif_ctx_init(&ctx);
    proof[0] = 64 | EXPF | (HASMIN ? 32 : 0); proof[1] = MANT - 1;
    __CPROVER_assume(in.extralen <= 8 && rw.outlen <= 16); memcpy(blindout, rw.blind0, 32);
    ret = secp256k1_rangeproof_verify_impl(secp256k1_get_hash_context(&ctx), &ctx.ecmult_gen_ctx, rw.nb ? NULL : blindout, rw.nv ? NULL : &vout, rw.nm ? NULL : rw.msg, rw.nm ? NULL : &outlen, rw.nonce, &minv, &maxv, &in.commit, proof, PLEN, in.extra, in.extralen, &in.gen);
    __CPROVER_assert(ret == 0 || ret == 1, "boolean");
    if (bor_calls && !bor_ret) __CPROVER_assert(ret == 0 && ri_calls == 0, "failed ring verification: no rewind attempted");
    if (ri_calls && !ri_ret) __CPROVER_assert(ret == 0, "failed inner rewind => failure");
    if (ret) {
        for (i = 0; i < 8; i++) mn = HASMIN ? ((mn << 8) | proof[2 + i]) : 0;
        expect = ri_v * (uint64_t)(EXPF == 0 ? 1 : (EXPF == 1 ? 10 : 100)) + mn;
        __CPROVER_assert(ri_calls == 1 && pe_calls == 1 && pe_value == expect && sc_val(&pe_sec) == sc_val(&ri_blind), "the recovered (blind, value * scale + min) pair is what gets re-committed and compared with the commitment");
        if (!rw.nv) __CPROVER_assert(vout == expect, "value_out receives the recovered value whether or not the blinding factor is requested");
        if (!rw.nb) __CPROVER_assert(be_val(blindout, 32) == (bvw)sc_val(&ri_blind), "blind_out receives the recovered blinding factor");
        __CPROVER_assert(ri_m == (rw.nm ? NULL : rw.msg) && ri_mlen == (rw.nm ? NULL : &outlen), "message buffer and length handed to the inner rewind unchanged");
        __CPROVER_assert(!(rw.nb && !rw.nv), "witness: value requested without blinding factor");
    }
}
#endif
#endif
