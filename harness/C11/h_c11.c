/* C11: surjection proofs -- canonical parse for all byte strings (engine B, copies abstracted to range checks), codec round trip per
 * size class, structural exactness of verify and post-condition of initialize (engine W, ring verifier / CSPRNG as recorded stubs). */
#include "cfg_full.h"
#include "secp256k1.c"
#include "vcommon.h"
#define W_FIELD_TRANSPARENT
#define W_SCALAR_UF
#define W_SHA_HAVOC
#include "w_stubs.h"
#define GLUE_ADD
#define GLUE_MAX 8
#include "w_glue.h"
#define N verif_N()
#define P verif_P()

#ifdef PARSE_ANY
/* memcpy of symbolic length -> exact range checks + havoc (content is the subject of the codec classes) */
void *STUB_memcpy(void *dst, const void *src, size_t n) {
    __CPROVER_assert(n == 0 || __CPROVER_r_ok(src, n), "memcpy source range readable");
    __CPROVER_assert(n == 0 || __CPROVER_w_ok(dst, n), "memcpy destination range writable (inside the proof object's field)");
    if (n) __CPROVER_havoc_slice(dst, n);
    return dst;
}
#ifndef PMAX
#define PMAX 8300
#endif
void harness_parse_any(void) {
    secp256k1_context ctx; secp256k1_surjectionproof proof; size_t len = nondet_size_t(), n, nb, pc = 0, i; unsigned char *in; int r, ref;
    verif_ctx_init(&ctx); __CPROVER_assume(len <= PMAX); in = malloc(len); __CPROVER_assume(in != NULL);
    r = secp256k1_surjectionproof_parse(&ctx, &proof, in, len);
    /* reference canonical grammar */
    ref = 0;
    if (len >= 2) {
        n = (size_t)in[0] + 256 * (size_t)in[1]; nb = (n + 7) / 8;
        if (n <= 256 && len >= 2 + nb) {
            int pad = 0;
            for (i = 0; i < 32; i++) if (i < nb) { unsigned char b = in[2 + i]; int k; for (k = 0; k < 8; k++) { if ((b >> k) & 1) { pc++; if (8 * i + k >= n) pad = 1; } } }
            if (!pad && len == 2 + nb + 32 * (1 + pc)) ref = 1;
        }
    }
    __CPROVER_assert(r == ref, "parse accepts exactly the canonical encodings (n_inputs <= 256, no padding bits, exact length)");
    if (r) {
        __CPROVER_assert(proof.n_inputs == n && proof.n_inputs <= 256, "accepted proof object: n_inputs <= 256");
        __CPROVER_assert(0, "witness: a proof parses");
    }
    __CPROVER_assert(verif_illegal_count == 0 && verif_error_count == 0, "no callbacks");
    __CPROVER_assert(!(len >= 2 && in[0] == 7 && in[1] == 1), "witness: n_inputs = 263 class reachable");
    free(in);
}
#endif

#ifdef CODEC
/* size class: NIN total inputs, the first NUSED bits set (assigned) -> all lengths concrete; signature bytes symbolic */
#define NB ((NIN + 7) / 8)
#define CLEN (2 + NB + 32 * (1 + NUSED))
void harness_codec(void) {
    secp256k1_context ctx; secp256k1_surjectionproof proof; unsigned char in[CLEN], out[CLEN + 8]; size_t ol = nondet_size_t(), ol0, i; int r;
    verif_ctx_init(&ctx);
    in[0] = NIN & 255; in[1] = NIN >> 8; for (i = 0; i < NB; i++) in[2 + i] = 0;
    for (i = 0; i < NUSED; i++) in[2 + i / 8] |= (unsigned char)(1 << (i % 8));
    r = secp256k1_surjectionproof_parse(&ctx, &proof, in, CLEN);
    __CPROVER_assert(r == 1, "canonical encoding of this class parses");
    __CPROVER_assert(secp256k1_surjectionproof_n_total_inputs(&ctx, &proof) == NIN && secp256k1_surjectionproof_n_used_inputs(&ctx, &proof) == NUSED
                     && secp256k1_surjectionproof_serialized_size(&ctx, &proof) == CLEN, "n_total_inputs / n_used_inputs / serialized_size consistent");
    __CPROVER_assume(ol <= CLEN + 8); ol0 = ol;
    r = secp256k1_surjectionproof_serialize(&ctx, out, &ol, &proof);
    __CPROVER_assert(r == (ol0 >= CLEN), "serialize succeeds exactly when the buffer holds the encoding");
    if (r) { __CPROVER_assert(ol == CLEN, "exact length reported"); for (i = 0; i < CLEN; i++) __CPROVER_assert(out[i] == in[i], "serialize(parse(x)) == x"); __CPROVER_assert(0, "witness: round trip"); }
    __CPROVER_assert(verif_illegal_count == 0, "no illegal callback");
}
#endif

#ifdef VERIFY_STRUCT
#ifndef KT
#define KT 3
#endif
static int bor_calls, bor_ret; static size_t bor_nr, bor_rs0; static const unsigned char *bor_e0; static secp256k1_scalar bor_s[KT]; static secp256k1_gej bor_p[KT]; static unsigned char bor_m[32];
int STUB_secp256k1_borromean_verify(const secp256k1_hash_ctx *hash_ctx, secp256k1_scalar *evalues, const unsigned char *e0, const secp256k1_scalar *s, const secp256k1_gej *pubs, const size_t *rsizes, size_t nrings, const unsigned char *m, size_t mlen) {
    size_t i; (void)hash_ctx; (void)evalues; bor_calls++; bor_nr = nrings; bor_rs0 = rsizes[0]; bor_e0 = e0; __CPROVER_assert(mlen == 32 && nrings == 1 && rsizes[0] <= KT, "ring verifier: one ring over the used inputs, 32-byte message");
    for (i = 0; i < KT; i++) if (i < rsizes[0]) { bor_s[i] = s[i]; bor_p[i] = pubs[i]; }
    memcpy(bor_m, m, 32); bor_ret = nondet_int() & 1; return bor_ret;
}
static unsigned char gm_out[32]; static size_t gm_n; static const secp256k1_generator *gm_in, *gm_outtag;
void STUB_secp256k1_surjection_genmessage(const secp256k1_hash_ctx *hash_ctx, unsigned char *msg32, const secp256k1_generator *ephemeral_input_tags, size_t n_input_tags, const secp256k1_generator *ephemeral_output_tag) {
    struct d32 { unsigned char b[32]; } nondet_d32(void); struct d32 d = nondet_d32(); (void)hash_ctx; gm_n = n_input_tags; gm_in = ephemeral_input_tags; gm_outtag = ephemeral_output_tag; memcpy(gm_out, d.b, 32); memcpy(msg32, d.b, 32);
}
typedef struct { secp256k1_generator in[KT], out; size_t ntags, n_inputs; unsigned char used0, sig[32 * (KT + 2)]; } v_in0_t; v_in0_t nondet_v_in0(void);
typedef struct { secp256k1_surjectionproof proof; secp256k1_generator in[KT], out; size_t ntags; } v_in_t;
void harness_verify_struct(void) {
    secp256k1_context ctx; v_in0_t in0 = nondet_v_in0(); static v_in_t in; int r, used = 0, bad = 0, i, j = 0; size_t nb;
    verif_ctx_init(&ctx); glue_init(); glue_calls = 0; bor_calls = 0;
    /* the 8 kB proof object: only the fields the verifier can reach for <= KT tags are symbolic, the rest zero (static) */
    in.proof.n_inputs = in0.n_inputs; in.proof.used_inputs[0] = in0.used0; memcpy(in.proof.data, in0.sig, sizeof(in0.sig)); memcpy(in.in, in0.in, sizeof(in.in)); in.out = in0.out; in.ntags = in0.ntags;
    /* representation invariant of a parsed / initialized proof object */
    __CPROVER_assume(in.proof.n_inputs <= 256); nb = (in.proof.n_inputs + 7) / 8;
    for (i = 1; i < 32; i++) in.proof.used_inputs[i] = 0;                      /* bound: the selection lies within the first 8 inputs */
    for (i = 0; i < 8; i++) if ((in.proof.used_inputs[0] >> i) & 1) { __CPROVER_assume((size_t)i < in.proof.n_inputs); used++; }
    __CPROVER_assume(in.ntags <= KT);
    for (i = 0; i < KT; i++) { __CPROVER_assume(be_val(&in.in[i].data[0], 32) < P && be_val(&in.in[i].data[32], 32) < P); }
    __CPROVER_assume(be_val(&in.out.data[0], 32) < P && be_val(&in.out.data[32], 32) < P);
    r = secp256k1_surjectionproof_verify(&ctx, &in.proof, in.in, in.ntags, &in.out);
    __CPROVER_assert(r == 0 || r == 1, "boolean");
    if (used == 0 || in.proof.n_inputs != in.ntags) __CPROVER_assert(r == 0 && bor_calls == 0, "empty selection or tag-count mismatch rejected before any ring evaluation");
    else {
        for (i = 0; i < KT; i++) if (i < used && be_val(&in.proof.data[32 + 32 * i], 32) >= N) bad = 1;
        if (bad) __CPROVER_assert(r == 0 && bor_calls == 0, "ring scalar >= n rejected");
        else {
            __CPROVER_assert(bor_calls == 1 && r == bor_ret, "otherwise the verdict is the ring verifier's");
            __CPROVER_assert(bor_rs0 == (size_t)used && bor_e0 == &in.proof.data[0] && gm_n == in.ntags && gm_in == in.in && gm_outtag == &in.out && memcmp(bor_m, gm_out, 32) == 0, "ring size = number of used inputs, e0 = proof bytes, message = hash over all input tags and the output tag");
            for (i = 0; i < KT; i++) if ((size_t)i < in.ntags && ((in.proof.used_inputs[i / 8] >> (i % 8)) & 1)) {
                __CPROVER_assert(glue_kind[j] == 4 && !glue_a[j].infinity && fe_cval(&glue_a[j].x) == be_val(&in.in[i].data[0], 32) && fe_cval(&glue_a[j].y) == negP(be_val(&in.in[i].data[32], 32))
                                 && fe_cval(&glue_b[j].x) == be_val(&in.out.data[0], 32) && fe_cval(&glue_b[j].y) == be_val(&in.out.data[32], 32), "ring key j = output tag - (j-th used input tag)");
                __CPROVER_assert(be_val(&in.proof.data[32 + 32 * j], 32) == (bvw)sc_bv(&bor_s[j]), "ring scalar j = proof bytes");
                __CPROVER_assert(bor_p[j].infinity == glue_R[j].infinity && fe_val(&bor_p[j].x) == fe_val(&glue_R[j].x) && fe_val(&bor_p[j].y) == fe_val(&glue_R[j].y) && fe_val(&bor_p[j].z) == fe_val(&glue_R[j].z), "the recorded difference is what the ring verifier receives");
                j++;
            }
            __CPROVER_assert(j == used && glue_calls == used, "exactly one ring key per used input");
            __CPROVER_assert(!r, "witness: acceptance reachable"); __CPROVER_assert(used != 2, "witness: two used inputs");
        }
    }
    __CPROVER_assert(verif_illegal_count == 0 && verif_error_count == 0, "no callbacks");
}
#endif

#ifdef INIT
#ifndef KT
#define KT 3
#endif
#ifndef MAXDRAWS
#define MAXDRAWS 6
#endif
/* the sampler's contract: a value below rand_max (its own rejection loop is the subject of the csprng query) */
static int draws;
size_t STUB_secp256k1_surjectionproof_csprng_next(const secp256k1_hash_ctx *hash_ctx, secp256k1_surjectionproof_csprng *csprng, size_t rand_max) {
    size_t v = nondet_size_t(); (void)hash_ctx; (void)csprng; draws++; __CPROVER_assume(draws <= MAXDRAWS);   /* bound: at most MAXDRAWS draws per call */
    __CPROVER_assume(v < rand_max); return v;
}
typedef struct { secp256k1_fixed_asset_tag tags[KT], out; size_t n, use, maxit; unsigned char seed[32]; } i_in_t; i_in_t nondet_i_in(void);
void harness_initialize(void) {
    secp256k1_context ctx; i_in_t in = nondet_i_in(); static secp256k1_surjectionproof proof; size_t idx = (size_t)-1; int r, i, pc = 0;
    verif_ctx_init(&ctx); __CPROVER_assume(in.n >= 1 && in.n <= KT && in.use >= 1 && in.use <= in.n && in.maxit >= 1 && in.maxit <= 2);
    r = secp256k1_surjectionproof_initialize(&ctx, &proof, &idx, in.tags, in.n, in.use, &in.out, in.maxit, in.seed);
    __CPROVER_assert(r >= 0 && (size_t)r <= in.maxit, "returns 0 or the number of iterations used");
    if (r > 0) {
        for (i = 0; i < 256; i++) if ((proof.used_inputs[i / 8] >> (i % 8)) & 1) { pc++; __CPROVER_assert((size_t)i < in.n, "selected bits lie inside the input list"); }
        __CPROVER_assert((size_t)pc == in.use && proof.n_inputs == in.n, "exactly n_to_use inputs selected out of n");
        __CPROVER_assert(idx < in.n && ((proof.used_inputs[idx / 8] >> (idx % 8)) & 1), "the reported index is selected");
        __CPROVER_assert(memcmp(&in.tags[idx], &in.out, 32) == 0, "the reported input equals the output tag (all 32 bytes)");
        __CPROVER_assert(verif_allzero(proof.data, 32 * (KT + 1)), "signature area cleared (the part a proof over these inputs uses)");
        __CPROVER_assert(0, "witness: initialization succeeds");
    }
    __CPROVER_assert(verif_illegal_count == 0, "no illegal callback");
}
#endif

#ifdef CSPRNG
/* rejection sampler, one step from an arbitrary state: if the (possibly refreshed) state byte is below the limit the result is below rand_max */
static unsigned char next_digest[32]; static int refreshes;
void STUB_secp256k1_sha256_write(const secp256k1_hash_ctx *hash_ctx, secp256k1_sha256 *hash, const unsigned char *data, size_t size) { (void)hash_ctx; (void)hash; __CPROVER_assert(size == 0 || __CPROVER_r_ok(data, size), "sha256_write: data readable"); }
void STUB_secp256k1_sha256_finalize(const secp256k1_hash_ctx *hash_ctx, secp256k1_sha256 *hash, unsigned char *out32) { (void)hash_ctx; (void)hash; refreshes++; memcpy(out32, next_digest, 32); }
void harness_csprng(void) {
    secp256k1_hash_ctx hc; secp256k1_surjectionproof_csprng c; struct cw { secp256k1_surjectionproof_csprng c; } nondet_cw(void); struct cw w = nondet_cw(), w2 = nondet_cw(); size_t rm = nondet_size_t(), v, lim;
    hc.fn_sha256_compression = secp256k1_sha256_transform; c = w.c; memcpy(next_digest, w2.c.state, 32); __CPROVER_assume(rm >= 1 && rm <= 256 && c.state_i <= 32);
    lim = (256 / rm) * rm;
    /* bound: the first sample is accepted (a rejected sample repeats the same step from the advanced state) */
    if (c.state_i + 1 >= 32) __CPROVER_assume(next_digest[0] < lim); else __CPROVER_assume(c.state[c.state_i] < lim);
    v = secp256k1_surjectionproof_csprng_next(&hc, &c, rm);
    __CPROVER_assert(refreshes == (w.c.state_i + 1 >= 32), "state refreshed exactly when fewer than one unread byte remains");
    __CPROVER_assert(v < rm, "sample below rand_max"); __CPROVER_assert(c.state_i >= 1 && c.state_i <= 32, "state index stays inside the 32-byte state");
    (void)lim; __CPROVER_assert(rm != 3, "witness: rand_max = 3");
}
#endif
