/* C12 (engine W): MuSig2 == BIP-327 at real width.
 * Curve results are free points recorded by the glue model, scalar multiplication is a (commutative) uninterpreted
 * function, the SHA-256 compression function is an uninterpreted function shared by the library code and by the
 * reference hashing written here from BIP-327 (tagged hashes via the library's midstates, which C05 proves equal to
 * from-scratch tagged hashing).  Each API function is run from ARBITRARY valid objects (cache, session, nonces), so the
 * per-function equalities compose to sessions of any shape (any tweak sequence, any order of the steps). */
#include "cfg_full.h"
#include "secp256k1.c"
#include "vcommon.h"
#define W_FIELD_TRANSPARENT
#define W_SCALAR_UF
#define W_SHA_UF
#define W_KEEP_MULTI
#include "w_stubs.h"
#define REF_SHA_MAX 192
#include "ref_sha.h"
#define GLUE_ADD
#define GLUE_MAX 6
#include "w_glue.h"
#define N verif_N()
#define P verif_P()
#ifndef NK
#define NK 2
#endif

/* batch Jacobian->affine conversion, exact on the z = 1 points the glue model produces (asserted) */
void STUB_secp256k1_ge_set_all_gej_var(secp256k1_ge *r, const secp256k1_gej *a, size_t len) {
    size_t i; __CPROVER_assert(len <= 2, "model: batch conversion of at most two points");
    for (i = 0; i < 2; i++) if (i < len) {
        if (a[i].infinity) secp256k1_ge_set_infinity(&r[i]);
        else { __CPROVER_assert(fe_val(&a[i].z) == 1, "model: z == 1"); r[i].x = a[i].x; r[i].y = a[i].y; r[i].infinity = 0; }
    }
}
/* ---------- reference helpers (written from BIP-327 / BIP-340) ---------- */
static void ser33_of(unsigned char *o, bvw x, bvw y) { o[0] = 2 | (unsigned char)(y & 1); be32_of(o + 1, x); }
static void ser33_ext(unsigned char *o, int inf, bvw x, bvw y) { if (inf) memset(o, 0, 33); else ser33_of(o, x, y); }
static bvw ref_tag_mid(void (*init)(secp256k1_sha256 *), const unsigned char *m, size_t len, unsigned char *out32) {
    secp256k1_sha256 t; unsigned char h[32]; init(&t); ref_sha256_from(t.s, 64, m, len, h); if (out32) memcpy(out32, h, 32); return be_val(h, 32);
}
static int pt_valid(const unsigned char *p64) { return st_val(p64) < P && st_val(p64 + 32) < P && st_val(p64) != 0; }
static int pt_zero(const unsigned char *p64) { return verif_allzero(p64, 64); }
static int pt_bytes_are(const unsigned char *p64, bvw x, bvw y) { return st_val(p64) == x && st_val(p64 + 32) == y; }
static int gej_same(const secp256k1_gej *a, const secp256k1_gej *b) {
    if (a->infinity || b->infinity) return a->infinity && b->infinity;
    return fe_cval(&a->x) == fe_cval(&b->x) && fe_cval(&a->y) == fe_cval(&b->y) && fe_cval(&a->z) == fe_cval(&b->z);
}
static int ge_is(const secp256k1_ge *a, bvw x, bvw y) { return !a->infinity && fe_cval(&a->x) == x && fe_cval(&a->y) == y; }
static int gejc_is(const secp256k1_gej *a, bvw x, bvw y) { return !a->infinity && fe_cval(&a->x) == x && fe_cval(&a->y) == y && fe_cval(&a->z) == 1; }
/* KeyAggCoeff: 1 for the second key, else H_coef(L || ser33(pk)) mod n */
static bvw ref_coef(const unsigned char *L, int have2, bvw x2, bvw y2, bvw x, bvw y) {
    unsigned char m[65];
    if (have2 && x == x2 && y == y2) return 1;
    memcpy(m, L, 32); ser33_of(m + 32, x, y);
    return redN(ref_tag_mid(secp256k1_musig_keyaggcoef_sha256, m, 65, NULL));
}

typedef struct {
    secp256k1_musig_keyagg_cache cache; secp256k1_musig_session session; secp256k1_musig_secnonce secnonce; secp256k1_musig_pubnonce pn[3];
    secp256k1_musig_aggnonce an; secp256k1_musig_partial_sig ps[3]; secp256k1_keypair kp; secp256k1_pubkey pk[3], adaptor;
    unsigned char secrand[32], seckey[32], msg[32], extra[32], pk33[33], aggpk[32], tweak[32], sig64[64], pre64[64]; uint64_t cnt;
    int n_sk, n_agg, n_msg, n_extra, n_cache, n_out, n_adaptor, xonly, parity;
} in_t;
in_t nondet_in(void);

/* a key-aggregation cache as the library leaves it: magic, finite canonical aggregate key, second key canonical or absent */
static void assume_cache(const secp256k1_musig_keyagg_cache *c) {
    __CPROVER_assume(memcmp(c->data, secp256k1_musig_keyagg_cache_magic, 4) == 0);
    __CPROVER_assume(pt_valid(&c->data[4]));
    __CPROVER_assume(pt_zero(&c->data[68]) || pt_valid(&c->data[68]));
}
#define C_QX(c) st_val(&(c).data[4])
#define C_QY(c) st_val(&(c).data[36])
#define C_HAVE2(c) (!pt_zero(&(c).data[68]))
#define C_X2(c) st_val(&(c).data[68])
#define C_Y2(c) st_val(&(c).data[100])
#define C_L(c) (&(c).data[132])
#define C_PAR(c) ((c).data[164] & 1)
#define C_TACC(c) redN(be_val(&(c).data[165], 32))

/* ================= 1. nonce derivation hash layout (BIP-327 NonceGen) ================= */
void harness_nonce_fn(void) {
    secp256k1_context ctx; in_t in = nondet_in(); secp256k1_scalar k[2]; unsigned char buf[192], rand[32], h[32]; size_t o = 0; int i;
    verif_ctx_init(&ctx);
#ifdef NF_COMBO   /* presence class (assigned, so every offset below is concrete) */
    in.n_sk = NF_COMBO & 1; in.n_agg = (NF_COMBO >> 1) & 1; in.n_msg = (NF_COMBO >> 2) & 1; in.n_extra = (NF_COMBO >> 3) & 1;
#endif
    secp256k1_nonce_function_musig(&ctx.hash_ctx, k, in.secrand, in.n_msg ? NULL : in.msg, in.n_sk ? NULL : in.seckey, in.pk33,
                                   in.n_agg ? NULL : in.aggpk, in.n_extra ? NULL : in.extra);
    if (!in.n_sk) { ref_tag_mid(secp256k1_nonce_function_musig_sha256_tagged_aux, in.secrand, 32, h); for (i = 0; i < 32; i++) rand[i] = h[i] ^ in.seckey[i]; }
    else memcpy(rand, in.secrand, 32);
    memcpy(buf, rand, 32); o = 32;
    buf[o++] = 33; memcpy(buf + o, in.pk33, 33); o += 33;
    if (!in.n_agg) { buf[o++] = 32; memcpy(buf + o, in.aggpk, 32); o += 32; } else buf[o++] = 0;
    if (!in.n_msg) { buf[o++] = 1; memset(buf + o, 0, 7); o += 7; buf[o++] = 32; memcpy(buf + o, in.msg, 32); o += 32; } else buf[o++] = 0;
    memset(buf + o, 0, 3); o += 3;
    if (!in.n_extra) { buf[o++] = 32; memcpy(buf + o, in.extra, 32); o += 32; } else buf[o++] = 0;
    for (i = 0; i < 2; i++) {
        bvw r; buf[o] = (unsigned char)i;
        r = redN(ref_tag_mid(secp256k1_nonce_function_musig_sha256_tagged, buf, o + 1, NULL));
        __CPROVER_assert((bvw)sc_bv(&k[i]) == r, "k_i == H_nonce(rand || len(pk) pk || len(aggpk) aggpk || msg_prefixed || len(extra) extra || i) mod n");
    }
    __CPROVER_assert(0, "witness: end of harness reached");
}

/* ================= 2. nonce_gen / nonce_gen_counter hand-over to the nonce function ================= */
#ifdef STUB_NONCEFN
static unsigned char nf_rand[32], nf_sk[32], nf_pk33[33], nf_agg[32]; static const unsigned char *nf_msg, *nf_extra; static int nf_calls, nf_has_sk, nf_has_agg;
static secp256k1_scalar nf_k[2];
void STUB_secp256k1_nonce_function_musig(const secp256k1_hash_ctx *hash_ctx, secp256k1_scalar *k, const unsigned char *session_secrand, const unsigned char *msg32, const unsigned char *seckey32, const unsigned char *pk33, const unsigned char *agg_pk32, const unsigned char *extra_input32) {
    (void)hash_ctx; nf_calls++; memcpy(nf_rand, session_secrand, 32); nf_has_sk = seckey32 != NULL; if (seckey32) memcpy(nf_sk, seckey32, 32);
    memcpy(nf_pk33, pk33, 33); nf_has_agg = agg_pk32 != NULL; if (agg_pk32) memcpy(nf_agg, agg_pk32, 32); nf_msg = msg32; nf_extra = extra_input32;
    nf_k[0] = verif_sc(); nf_k[1] = verif_sc(); k[0] = nf_k[0]; k[1] = nf_k[1];
}
static void check_nonce_objects(const in_t *in, const secp256k1_musig_secnonce *sn, const secp256k1_musig_pubnonce *pn, bvw px, bvw py) {
    unsigned char e33[33], x32[32];
    ser33_of(e33, px, py);
    __CPROVER_assert(nf_calls == 1 && memcmp(nf_pk33, e33, 33) == 0, "nonce function receives ser33 of the signer's public key");
    if (in->n_cache) __CPROVER_assert(!nf_has_agg, "no cache => aggregate key absent from the nonce hash");
    else { be32_of(x32, C_QX(in->cache)); __CPROVER_assert(nf_has_agg && memcmp(nf_agg, x32, 32) == 0, "cache => x-only aggregate key enters the nonce hash"); }
    __CPROVER_assert(glue_calls == 2 && glue_kind[0] == 2 && glue_kind[1] == 2 && sc_bv(&glue_ng[0]) == sc_bv(&nf_k[0]) && sc_bv(&glue_ng[1]) == sc_bv(&nf_k[1]), "R_i = k_i G");
    __CPROVER_assert(memcmp(pn->data, secp256k1_musig_pubnonce_magic, 4) == 0 && pt_bytes_are(&pn->data[4], fe_val(&glue_R[0].x), fe_val(&glue_R[0].y))
                     && pt_bytes_are(&pn->data[68], fe_val(&glue_R[1].x), fe_val(&glue_R[1].y)), "pubnonce == (R_1, R_2)");
    __CPROVER_assert(be_val(&sn->data[4], 32) == (bvw)sc_bv(&nf_k[0]) && be_val(&sn->data[36], 32) == (bvw)sc_bv(&nf_k[1]) && pt_bytes_are(&sn->data[68], px, py), "secnonce == (k_1, k_2, pk)");
}
void harness_nonce_gen_counter(void) {
    secp256k1_context ctx; in_t in = nondet_in(); secp256k1_musig_secnonce sn; secp256k1_musig_pubnonce pn; int ret, i; unsigned char exp[32]; bvw d, px, py;
    verif_ctx_init(&ctx); glue_init(); __CPROVER_assume(!glue_R[0].infinity && !glue_R[1].infinity);
    if (!in.n_cache) assume_cache(&in.cache);
    __CPROVER_assume(pt_valid(&in.kp.data[32]));
    d = be_val(in.kp.data, 32); px = st_val(&in.kp.data[32]); py = st_val(&in.kp.data[64]);
    ret = secp256k1_musig_nonce_gen_counter(&ctx, &sn, &pn, in.cnt, &in.kp, in.n_msg ? NULL : in.msg, in.n_cache ? NULL : &in.cache, in.n_extra ? NULL : in.extra);
    __CPROVER_assert(ret == (d != 0 && d < N), "nonce_gen_counter succeeds exactly for a valid keypair secret");
    for (i = 0; i < 32; i++) exp[i] = i < 8 ? (unsigned char)(in.cnt >> (56 - 8 * i)) : 0;
    __CPROVER_assert(memcmp(nf_rand, exp, 32) == 0, "all 8 counter bytes (big endian, zero padded to 32) are the session randomness");
    __CPROVER_assert(nf_has_sk && memcmp(nf_sk, in.kp.data, 32) == 0, "the keypair's secret key enters the nonce hash");
    __CPROVER_assert(nf_msg == (in.n_msg ? NULL : in.msg) && nf_extra == (in.n_extra ? NULL : in.extra), "message / extra input handed over unchanged");
    if (ret) { check_nonce_objects(&in, &sn, &pn, px, py); __CPROVER_assert(memcmp(sn.data, secp256k1_musig_secnonce_magic, 4) == 0, "secnonce live"); }
    else __CPROVER_assert(verif_allzero(&sn, sizeof(sn)), "failure => secnonce all-zero");
    __CPROVER_assert(verif_illegal_count == 0 && verif_error_count == 0, "no callbacks");
    __CPROVER_assert(!ret, "witness: success"); __CPROVER_assert(!(ret && (in.cnt >> 32) != 0), "witness: counter above 2^32");
}
void harness_nonce_gen(void) {
    secp256k1_context ctx; in_t in = nondet_in(); secp256k1_musig_secnonce sn; secp256k1_musig_pubnonce pn; int ret; unsigned char r0[32]; bvw d, px, py;
    verif_ctx_init(&ctx); glue_init(); __CPROVER_assume(!glue_R[0].infinity && !glue_R[1].infinity);
    if (!in.n_cache) assume_cache(&in.cache);
    __CPROVER_assume(pt_valid(&in.pk[0].data[0]));
    d = be_val(in.seckey, 32); px = st_val(&in.pk[0].data[0]); py = st_val(&in.pk[0].data[32]); memcpy(r0, in.secrand, 32);
    ret = secp256k1_musig_nonce_gen(&ctx, &sn, &pn, in.secrand, in.n_sk ? NULL : in.seckey, &in.pk[0], in.n_msg ? NULL : in.msg, in.n_cache ? NULL : &in.cache, in.n_extra ? NULL : in.extra);
    __CPROVER_assert(ret == (!verif_allzero(r0, 32) && (in.n_sk || (d != 0 && d < N))), "nonce_gen succeeds exactly for non-zero randomness and a valid (or absent) secret key");
    if (!verif_allzero(r0, 32)) {
        __CPROVER_assert(memcmp(nf_rand, r0, 32) == 0, "caller randomness is the session randomness");
        __CPROVER_assert(nf_has_sk == !in.n_sk && (in.n_sk || memcmp(nf_sk, in.seckey, 32) == 0), "optional secret key handed over");
        __CPROVER_assert(nf_msg == (in.n_msg ? NULL : in.msg) && nf_extra == (in.n_extra ? NULL : in.extra), "message / extra input handed over unchanged");
    } else __CPROVER_assert(nf_calls == 0, "zero randomness => nothing derived");
    if (ret) check_nonce_objects(&in, &sn, &pn, px, py); else __CPROVER_assert(verif_allzero(&sn, sizeof(sn)), "failure => secnonce all-zero");
    __CPROVER_assert(!ret, "witness: success");
}
#endif

/* ================= 3. key aggregation ================= */
#ifdef HARNESS_KEYAGG
static secp256k1_scalar mv_sc[NK]; static secp256k1_ge mv_pt[NK]; static size_t mv_n; static int mv_calls;
int STUB_secp256k1_ecmult_multi_var(const secp256k1_callback *error_callback, secp256k1_scratch *scratch, secp256k1_gej *r, const secp256k1_scalar *inp_g_sc, secp256k1_ecmult_multi_callback cb, void *cbdata, size_t n) {
    size_t i; (void)error_callback; (void)scratch;
    mv_calls++; mv_n = n; __CPROVER_assert(inp_g_sc == NULL, "no G term in key aggregation"); __CPROVER_assert(n <= NK, "multi: n within list");
    for (i = 0; i < NK; i++) if (i < n) { int ok = cb(&mv_sc[i], &mv_pt[i], i, cbdata); __CPROVER_assert(ok == 1, "aggregation callback succeeds"); }
    *r = glue_R[0]; return 1;
}
void harness_keyagg(void) {
    secp256k1_context ctx; in_t in = nondet_in(); const secp256k1_pubkey *pks[NK]; secp256k1_xonly_pubkey agg; secp256k1_musig_keyagg_cache cache; secp256k1_pubkey got;
    unsigned char cat[33 * NK], L[32]; int i, ret, have2 = 0, allvalid = 1; bvw x[NK], y[NK], x2 = 0, y2 = 0, qx, qy;
    verif_ctx_init(&ctx); glue_init(); __CPROVER_assume(!glue_R[0].infinity);   /* aggregate at infinity: 'negligible', VERIFY_CHECK only (listed assumption) */
    for (i = 0; i < NK; i++) {
        pks[i] = &in.pk[i]; __CPROVER_assume(st_val(&in.pk[i].data[0]) < P && st_val(&in.pk[i].data[32]) < P);
        x[i] = st_val(&in.pk[i].data[0]); y[i] = st_val(&in.pk[i].data[32]); if (x[i] == 0) allvalid = 0;
    }
    ret = secp256k1_musig_pubkey_agg(&ctx, in.n_out ? NULL : &agg, &cache, pks, NK);
    if (!allvalid) { __CPROVER_assert(ret == 0 && verif_illegal_count >= 1, "an invalid key object => failure through the illegal callback"); return; }
    __CPROVER_assert(ret == 1 && verif_illegal_count == 0 && verif_error_count == 0, "valid keys => success, no callback");
    for (i = NK - 1; i >= 1; i--) if (x[i] != x[0] || y[i] != y[0]) { have2 = 1; x2 = x[i]; y2 = y[i]; }   /* GetSecondKey: first key different from pk_1 */
    for (i = 0; i < NK; i++) ser33_of(cat + 33 * i, x[i], y[i]);
    ref_tag_mid(secp256k1_musig_keyagglist_sha256, cat, 33 * NK, L);
    __CPROVER_assert(mv_calls == 1 && mv_n == NK, "Q = sum over all n keys");
    for (i = 0; i < NK; i++) {
        __CPROVER_assert(ge_is(&mv_pt[i], x[i], y[i]), "term i uses P_i");
        __CPROVER_assert((bvw)sc_bv(&mv_sc[i]) == ref_coef(L, have2, x2, y2, x[i], y[i]), "term i uses a_i = KeyAggCoeff(L, pk_i) (1 for the second distinct key)");
    }
    qx = fe_val(&glue_R[0].x); qy = fe_val(&glue_R[0].y);
    __CPROVER_assert(memcmp(cache.data, secp256k1_musig_keyagg_cache_magic, 4) == 0 && pt_bytes_are(&cache.data[4], qx, qy), "cache holds Q");
    __CPROVER_assert(have2 ? pt_bytes_are(&cache.data[68], x2, y2) : pt_zero(&cache.data[68]), "cache holds the second key (or none)");
    __CPROVER_assert(memcmp(C_L(cache), L, 32) == 0, "cache holds L = H_list(pk_1 || ... || pk_n)");
    __CPROVER_assert(cache.data[164] == 0 && verif_allzero(&cache.data[165], 32), "gacc = 1, tacc = 0");
    if (!in.n_out) __CPROVER_assert(pt_bytes_are(agg.data, qx, (qy & 1) ? P - qy : qy), "x-only aggregate key == Q with even y");
    ret = secp256k1_musig_pubkey_get(&ctx, &got, &cache);
    __CPROVER_assert(ret == 1 && pt_bytes_are(got.data, qx, qy), "pubkey_get returns Q");
#if NK >= 2
    __CPROVER_assert(!have2, "witness: a second distinct key exists");
#endif
    __CPROVER_assert(have2, "witness: all keys equal");
#if NK >= 3
    __CPROVER_assert(!(have2 && x[1] == x[0] && y[1] == y[0]), "witness: first key repeated, second key is the third entry");
#endif
}
#endif

/* ================= 4. tweaking (ApplyTweak), one step from an arbitrary valid cache ================= */
void harness_tweak(void) {
    secp256k1_context ctx; in_t in = nondet_in(); secp256k1_musig_keyagg_cache c0; secp256k1_pubkey out; int ret, flip; bvw t, qx, qy, tacc, exp_tacc;
    verif_ctx_init(&ctx); glue_init(); assume_cache(&in.cache); c0 = in.cache;
    t = be_val(in.tweak, 32); qx = C_QX(c0); qy = C_QY(c0); tacc = C_TACC(c0); flip = (in.xonly & 1) && (qy & 1);
    if (in.xonly & 1) ret = secp256k1_musig_pubkey_xonly_tweak_add(&ctx, in.n_out ? NULL : &out, &in.cache, in.tweak);
    else ret = secp256k1_musig_pubkey_ec_tweak_add(&ctx, in.n_out ? NULL : &out, &in.cache, in.tweak);
    __CPROVER_assert(ret == (t < N && !glue_R[0].infinity), "tweak_add fails exactly for tweak >= n or Q' at infinity");
    if (t < N) __CPROVER_assert(glue_calls == 1 && glue_kind[0] == 1 && gejc_is(&glue_a[0], qx, flip ? P - qy : qy) && (bvw)sc_bv(&glue_na[0]) == 1 && !glue_ng_null[0] && (bvw)sc_bv(&glue_ng[0]) == t,
                                "Q' = g*Q + t*G with g = -1 iff x-only tweak and odd y(Q)");
    else __CPROVER_assert(glue_calls == 0, "no curve operation for an out-of-range tweak");
    if (ret) {
        exp_tacc = addN(flip ? negN(tacc) : tacc, t);
        __CPROVER_assert(pt_bytes_are(&in.cache.data[4], fe_val(&glue_R[0].x), fe_val(&glue_R[0].y)), "cache holds Q'");
        __CPROVER_assert((in.cache.data[164] & 1) == (C_PAR(c0) ^ flip), "gacc' = g * gacc");
        __CPROVER_assert(be_val(&in.cache.data[165], 32) == exp_tacc, "tacc' = t + g * tacc mod n");
        __CPROVER_assert(memcmp(&in.cache.data[68], &c0.data[68], 96) == 0 && memcmp(in.cache.data, c0.data, 4) == 0, "second key and L unchanged");
        if (!in.n_out) __CPROVER_assert(pt_bytes_are(out.data, fe_val(&glue_R[0].x), fe_val(&glue_R[0].y)), "output key == Q'");
    } else {
        __CPROVER_assert(memcmp(&in.cache, &c0, sizeof(c0)) == 0, "failure => cache unchanged");
        if (!in.n_out) __CPROVER_assert(verif_allzero(&out, sizeof(out)), "failure => zero output key");
    }
    __CPROVER_assert(verif_illegal_count == 0 && verif_error_count == 0, "no callbacks");
    __CPROVER_assert(!(ret && flip), "witness: parity-flipping x-only tweak"); __CPROVER_assert(!(ret && !flip && tacc != 0), "witness: plain tweak on a tweaked cache");
}

/* ================= 5. nonce aggregation ================= */
static void pn_assume(const secp256k1_musig_pubnonce *p) {
    __CPROVER_assume(memcmp(p->data, secp256k1_musig_pubnonce_magic, 4) == 0 && pt_valid(&p->data[4]) && pt_valid(&p->data[68]));
}
void harness_nonce_agg(void) {
    secp256k1_context ctx; in_t in = nondet_in(); const secp256k1_musig_pubnonce *pns[NK]; secp256k1_musig_aggnonce an; unsigned char out66[66], e33[33]; int i, j, ret;
    verif_ctx_init(&ctx); glue_init();
    for (i = 0; i < NK; i++) { pn_assume(&in.pn[i]); pns[i] = &in.pn[i]; }
    for (i = 0; i < GLUE_MAX; i++) __CPROVER_assume(fe_val(&glue_R[i].y) != 0);   /* a finite curve point has y != 0 (prime group order): its 64-byte image is never all-zero */
#ifdef INFCLASS   /* which final component sums are infinite (assigned class: keeps batch-conversion indices concrete) */
    glue_R[2 * (NK - 1)].infinity = INFCLASS & 1; glue_R[2 * (NK - 1) + 1].infinity = (INFCLASS >> 1) & 1;
#endif
    ret = secp256k1_musig_nonce_agg(&ctx, &an, pns, NK);
    __CPROVER_assert(ret == 1 && glue_calls == 2 * NK, "aggregation succeeds with exactly 2n point additions");
    for (i = 0; i < NK; i++) for (j = 0; j < 2; j++) {
        int c = 2 * i + j;
        __CPROVER_assert(glue_kind[c] == 4 && ge_is(&glue_b[c], st_val(&in.pn[i].data[4 + 64 * j]), st_val(&in.pn[i].data[36 + 64 * j])), "addition c adds R_{i,j}");
        __CPROVER_assert(i == 0 ? glue_a[c].infinity : gej_same(&glue_a[c], &glue_R[c - 2]), "addition c accumulates onto the running sum of component j");
    }
    __CPROVER_assert(memcmp(an.data, secp256k1_musig_aggnonce_magic, 4) == 0, "aggnonce magic");
    ret = secp256k1_musig_aggnonce_serialize(&ctx, out66, &an);
    for (j = 0; j < 2; j++) {
        const secp256k1_gej *s = &glue_R[2 * (NK - 1) + j];
        __CPROVER_assert(s->infinity ? pt_zero(&an.data[4 + 64 * j]) : pt_bytes_are(&an.data[4 + 64 * j], fe_val(&s->x), fe_val(&s->y)), "aggnonce component j == sum_j (all-zero if infinity)");
        ser33_ext(e33, s->infinity, fe_val(&s->x), fe_val(&s->y));
        __CPROVER_assert(ret == 1 && memcmp(out66 + 33 * j, e33, 33) == 0, "serialized aggnonce component: cbytes_ext (33 zero bytes for infinity)");
    }
    __CPROVER_assert(verif_illegal_count == 0, "no illegal callback");
    __CPROVER_assert(0, "witness: end of harness reached");
}

/* ================= 6. nonce_process (session creation) ================= */
void harness_nonce_process(void) {
    secp256k1_context ctx; in_t in = nondet_in(); secp256k1_musig_session s; unsigned char m[130], xq[32], fin[32], cat[96]; int ret, c = 0, inf1, inf2, par; bvw r1x, r1y, r2x, r2y, b, e, fx, fy, tacc, sp;
    secp256k1_sha256 t;
    verif_ctx_init(&ctx); glue_init(); assume_cache(&in.cache);
    __CPROVER_assume(memcmp(in.an.data, secp256k1_musig_aggnonce_magic, 4) == 0);
#ifdef PCLASS  /* assigned class: bit0 adaptor absent, bit1 R_1' infinite, bit2 R_2 infinite, bit3 final sum infinite */
    in.n_adaptor = PCLASS & 1;
    if (PCLASS & 4) memset(&in.an.data[68], 0, 64); else __CPROVER_assume(pt_valid(&in.an.data[68]));
    if (PCLASS & 1) { if (PCLASS & 2) memset(&in.an.data[4], 0, 64); else __CPROVER_assume(pt_valid(&in.an.data[4])); glue_R[1].infinity = (PCLASS >> 3) & 1; }
    else { glue_R[0].infinity = (PCLASS >> 1) & 1; glue_R[2].infinity = (PCLASS >> 3) & 1; }
#endif
    { int gi; for (gi = 0; gi < GLUE_MAX; gi++) __CPROVER_assume(fe_val(&glue_R[gi].y) != 0); }   /* finite curve points have y != 0 */
    __CPROVER_assume((pt_zero(&in.an.data[4]) || pt_valid(&in.an.data[4])) && (pt_zero(&in.an.data[68]) || pt_valid(&in.an.data[68])));
    __CPROVER_assume(pt_valid(in.adaptor.data));
    inf1 = pt_zero(&in.an.data[4]); inf2 = pt_zero(&in.an.data[68]);
    r1x = st_val(&in.an.data[4]); r1y = st_val(&in.an.data[36]); r2x = st_val(&in.an.data[68]); r2y = st_val(&in.an.data[100]);
    ret = secp256k1_musig_nonce_process(&ctx, &s, &in.an, in.msg, &in.cache, in.n_adaptor ? NULL : &in.adaptor);
    __CPROVER_assert(ret == 1 && verif_illegal_count == 0, "nonce_process succeeds for valid objects");
    if (!in.n_adaptor) {   /* R_1' = R_1 + T */
        __CPROVER_assert(glue_kind[0] == 4 && (inf1 ? glue_a[0].infinity : gejc_is(&glue_a[0], r1x, r1y)) && ge_is(&glue_b[0], st_val(in.adaptor.data), st_val(&in.adaptor.data[32])), "adaptor point added to the first aggregate nonce");
        inf1 = glue_R[0].infinity; r1x = fe_val(&glue_R[0].x); r1y = fe_val(&glue_R[0].y); c = 1;
    }
    be32_of(xq, C_QX(in.cache));
    ser33_ext(m, inf1, r1x, r1y); ser33_ext(m + 33, inf2, r2x, r2y); memcpy(m + 66, xq, 32); memcpy(m + 98, in.msg, 32);
    b = redN(ref_tag_mid(secp256k1_musig_compute_noncehash_sha256_tagged, m, 130, NULL));
    __CPROVER_assert(glue_calls == c + 2 && glue_kind[c] == 1 && (inf2 ? glue_a[c].infinity : gejc_is(&glue_a[c], r2x, r2y)) && (bvw)sc_bv(&glue_na[c]) == b && (glue_ng_null[c] || sc_bv(&glue_ng[c]) == 0),
                     "b*R_2 with b = H_noncecoef(cbytes_ext(R_1') || cbytes_ext(R_2) || xbytes(Q) || m) mod n");
    __CPROVER_assert(glue_kind[c + 1] == 4 && gej_same(&glue_a[c + 1], &glue_R[c]) && (inf1 ? glue_b[c + 1].infinity : ge_is(&glue_b[c + 1], r1x, r1y)), "R = R_1' + b*R_2");
    if (glue_R[c + 1].infinity) { fx = fe_val(&secp256k1_ge_const_g.x); fy = fe_val(&secp256k1_ge_const_g.y); } else { fx = fe_val(&glue_R[c + 1].x); fy = fe_val(&glue_R[c + 1].y); }
    be32_of(fin, fx); par = (int)(fy & 1);
    memcpy(cat, fin, 32); memcpy(cat + 32, xq, 32); memcpy(cat + 64, in.msg, 32);
    secp256k1_schnorrsig_sha256_tagged(&t); { unsigned char h[32]; ref_sha256_from(t.s, 64, cat, 96, h); e = redN(be_val(h, 32)); }
    tacc = C_TACC(in.cache);
    sp = tacc == 0 ? 0 : (bvw)uf_scmul((sbv)e, (sbv)tacc); if (tacc != 0 && (C_QY(in.cache) & 1)) sp = negN(sp);
    __CPROVER_assert(memcmp(s.data, secp256k1_musig_session_cache_magic, 4) == 0 && s.data[4] == par && memcmp(&s.data[5], fin, 32) == 0, "session holds xbytes(R) and its parity (R = G if the sum is infinite)");
    __CPROVER_assert(be_val(&s.data[37], 32) == b, "session holds b");
    __CPROVER_assert(be_val(&s.data[69], 32) == e, "session holds e = H_challenge(xbytes(R) || xbytes(Q) || m) mod n");
    __CPROVER_assert(be_val(&s.data[101], 32) == sp, "session holds g*e*tacc (g = -1 for odd y(Q))");
    __CPROVER_assert(0, "witness: end of harness reached");
}

/* ================= 7. partial signing algebra, from arbitrary valid (cache, session, live secnonce) ================= */
static void session_assume(const secp256k1_musig_session *s) { __CPROVER_assume(memcmp(s->data, secp256k1_musig_session_cache_magic, 4) == 0); }
void harness_partial_sign(void) {
    secp256k1_context ctx; in_t in = nondet_in(); secp256k1_musig_partial_sig ps; int ret, negd, par; bvw d, px, py, k1, k2, b, e, mu, dd, s;
    verif_ctx_init(&ctx); assume_cache(&in.cache); session_assume(&in.session);
    __CPROVER_assume(memcmp(in.secnonce.data, secp256k1_musig_secnonce_magic, 4) == 0 && !verif_allzero(&in.secnonce.data[4], 64));
    __CPROVER_assume(pt_valid(&in.kp.data[32]) && memcmp(&in.secnonce.data[68], &in.kp.data[32], 64) == 0);
    d = be_val(in.kp.data, 32); __CPROVER_assume(d != 0 && d < N);
    px = st_val(&in.kp.data[32]); py = st_val(&in.kp.data[64]);
    k1 = redN(be_val(&in.secnonce.data[4], 32)); k2 = redN(be_val(&in.secnonce.data[36], 32));
    par = in.session.data[4]; b = redN(be_val(&in.session.data[37], 32)); e = redN(be_val(&in.session.data[69], 32));
    ret = secp256k1_musig_partial_sign(&ctx, &ps, &in.secnonce, &in.kp, &in.cache, &in.session);
    __CPROVER_assert(ret == 1 && verif_illegal_count == 0, "honest partial_sign succeeds");
    negd = ((C_QY(in.cache) & 1) != 0) != (C_PAR(in.cache) != 0);
    dd = negd ? N - d : d;
    mu = ref_coef(C_L(in.cache), C_HAVE2(in.cache), C_X2(in.cache), C_Y2(in.cache), px, py);
    if (par) { k1 = negN(k1); k2 = negN(k2); }
    s = addN((bvw)uf_scmul((sbv)e, uf_scmul((sbv)dd, (sbv)mu)), addN(k1, (bvw)uf_scmul((sbv)b, (sbv)k2)));
    __CPROVER_assert(memcmp(ps.data, secp256k1_musig_partial_sig_magic, 4) == 0 && be_val(&ps.data[4], 32) == s, "s = k_1' + b k_2' + e a d  (d = g gacc d', k' negated for odd final nonce)");
    __CPROVER_assert(!(negd && par), "witness: both negations active"); __CPROVER_assert(mu != 1, "witness: second-key coefficient 1");
}

/* ================= 8. partial signature verification equation ================= */
void harness_partial_verify(void) {
    secp256k1_context ctx; in_t in = nondet_in(); int ret, nege, par, ovf; bvw px, py, b, e, mu, ee, s, r1x, r1y, r2x, r2y;
    verif_ctx_init(&ctx); glue_init(); assume_cache(&in.cache); session_assume(&in.session); pn_assume(&in.pn[0]);
    __CPROVER_assume(pt_valid(in.pk[0].data));
    __CPROVER_assume(memcmp(in.ps[0].data, secp256k1_musig_partial_sig_magic, 4) == 0);
    s = be_val(&in.ps[0].data[4], 32); ovf = s >= N; __CPROVER_assume(!ovf);     /* parsed partial signatures are < n */
    px = st_val(in.pk[0].data); py = st_val(&in.pk[0].data[32]);
    r1x = st_val(&in.pn[0].data[4]); r1y = st_val(&in.pn[0].data[36]); r2x = st_val(&in.pn[0].data[68]); r2y = st_val(&in.pn[0].data[100]);
    par = in.session.data[4]; b = redN(be_val(&in.session.data[37], 32)); e = redN(be_val(&in.session.data[69], 32));
    ret = secp256k1_musig_partial_sig_verify(&ctx, &in.ps[0], &in.pn[0], &in.pk[0], &in.cache, &in.session);
    mu = ref_coef(C_L(in.cache), C_HAVE2(in.cache), C_X2(in.cache), C_Y2(in.cache), px, py);
    nege = ((C_QY(in.cache) & 1) != 0) != (C_PAR(in.cache) != 0);
    ee = (bvw)uf_scmul((sbv)e, (sbv)mu); if (nege) ee = negN(ee);
    __CPROVER_assert(glue_calls == 4 && glue_kind[0] == 1 && gejc_is(&glue_a[0], r2x, r2y) && (bvw)sc_bv(&glue_na[0]) == b && (glue_ng_null[0] || sc_bv(&glue_ng[0]) == 0), "b*R_{2,i}");
    __CPROVER_assert(glue_kind[1] == 4 && gej_same(&glue_a[1], &glue_R[0]) && ge_is(&glue_b[1], r1x, r1y), "Re = R_{1,i} + b*R_{2,i}");
    __CPROVER_assert(glue_kind[2] == 1 && gejc_is(&glue_a[2], px, py) && (bvw)sc_bv(&glue_na[2]) == ee && !glue_ng_null[2] && (bvw)sc_bv(&glue_ng[2]) == negN(s), "T = (e a g')*P_i - s*G");
    {
        secp256k1_gej re = glue_R[1];
        __CPROVER_assert(glue_kind[3] == 5 && gej_same(&glue_a[3], &glue_R[2]) && (re.infinity ? glue_c[3].infinity :
                         (!glue_c[3].infinity && fe_cval(&glue_c[3].x) == fe_cval(&re.x) && fe_cval(&glue_c[3].z) == fe_cval(&re.z) &&
                          fe_cval(&glue_c[3].y) == (par ? negP(fe_cval(&re.y)) : fe_cval(&re.y)))), "T + (Re negated for an odd final nonce)");
    }
    __CPROVER_assert(ret == (glue_R[3].infinity != 0), "partial_sig_verify == (s*G == Re' + e a g' P_i)");
    __CPROVER_assert(verif_illegal_count == 0, "no illegal callback");
    __CPROVER_assert(!ret, "witness: accept"); __CPROVER_assert(!(nege && par), "witness: both negations");
}

/* ================= 9. partial signature aggregation ================= */
void harness_sig_agg(void) {
    secp256k1_context ctx; in_t in = nondet_in(); const secp256k1_musig_partial_sig *pss[NK]; unsigned char sig[64]; int i, ret; bvw s;
    verif_ctx_init(&ctx); session_assume(&in.session);
    s = redN(be_val(&in.session.data[101], 32));
    for (i = 0; i < NK; i++) { __CPROVER_assume(memcmp(in.ps[i].data, secp256k1_musig_partial_sig_magic, 4) == 0 && be_val(&in.ps[i].data[4], 32) < N); pss[i] = &in.ps[i]; s = addN(s, be_val(&in.ps[i].data[4], 32)); }
    ret = secp256k1_musig_partial_sig_agg(&ctx, sig, &in.session, pss, NK);
    __CPROVER_assert(ret == 1 && memcmp(sig, &in.session.data[5], 32) == 0 && be_val(sig + 32, 32) == s, "sig = xbytes(R) || (sum s_i + g e tacc) mod n");
    __CPROVER_assert(s != 0, "witness: zero sum");
}

/* ================= 10. adaptor: adapt / extract inverse, parity accessor ================= */
void harness_adaptor(void) {
    secp256k1_context ctx; in_t in = nondet_in(); unsigned char sig[64], t2[32]; int ret, ret2, par = in.parity, np = -1; bvw s = be_val(in.pre64 + 32, 32), t = be_val(in.seckey, 32), exp;
    verif_ctx_init(&ctx); __CPROVER_assume(par == 0 || par == 1);
    ret = secp256k1_musig_adapt(&ctx, sig, in.pre64, in.seckey, par);
    __CPROVER_assert(ret == (s < N && t < N), "adapt fails exactly for out-of-range pre-signature scalar or adaptor secret");
    if (ret) {
        exp = addN(s, par ? negN(t) : t);
        __CPROVER_assert(memcmp(sig, in.pre64, 32) == 0 && be_val(sig + 32, 32) == exp, "adapt: r unchanged, s' = s + t (s - t for odd final nonce)");
        ret2 = secp256k1_musig_extract_adaptor(&ctx, t2, sig, in.pre64, par);
        __CPROVER_assert(ret2 == 1 && memcmp(t2, in.seckey, 32) == 0, "extract_adaptor(adapt(pre, t), pre) == t");
    }
    session_assume(&in.session);
    ret = secp256k1_musig_nonce_parity(&ctx, &np, &in.session);
    __CPROVER_assert(ret == 1 && np == in.session.data[4], "nonce_parity reports the session's final-nonce parity");
    __CPROVER_assert(verif_illegal_count == 0, "no illegal callback"); __CPROVER_assert(!(ret && par), "witness: odd parity");
}
void harness_extract(void) {
    secp256k1_context ctx; in_t in = nondet_in(); unsigned char t2[32]; int ret, par = in.parity; bvw s = be_val(in.pre64 + 32, 32), s2 = be_val(in.sig64 + 32, 32), exp;
    verif_ctx_init(&ctx); __CPROVER_assume(par == 0 || par == 1);
    ret = secp256k1_musig_extract_adaptor(&ctx, t2, in.sig64, in.pre64, par);
    __CPROVER_assert(ret == (s < N && s2 < N), "extract fails exactly for out-of-range scalars");
    if (ret) { exp = par ? addN(s, negN(s2)) : addN(s2, negN(s)); __CPROVER_assert(be_val(t2, 32) == exp, "t = s' - s (s - s' for odd final nonce)"); }
    __CPROVER_assert(!ret, "witness: success");
}
