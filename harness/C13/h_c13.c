/* C13: MuSig secret nonce single use -- one inductive step from ARBITRARY object states (engine W). */
#include "cfg_full.h"
#include "secp256k1.c"
#include "vcommon.h"
#define W_FIELD
#define W_SCALAR
#define W_ECMULT
#define W_SHA_API
#include "w_stubs.h"

typedef struct { secp256k1_musig_partial_sig psig; secp256k1_musig_secnonce secnonce; secp256k1_keypair keypair;
                 secp256k1_musig_keyagg_cache cache; secp256k1_musig_session session; secp256k1_musig_pubnonce pubnonce;
                 secp256k1_pubkey pubkey; unsigned char rand[32], seckey[32], msg[32], extra[32]; uint64_t cnt;
                 int n1, n2, n3, n4, n5, n6, n7; } inputs_t;
inputs_t nondet_inputs(void);

/* value of a 32-byte storage word array (4 native-endian uint64) */
static bvw st_val(const unsigned char *p) { uint64_t w[4]; bvw v = 0; int i; memcpy(w, p, 32); for (i = 3; i >= 0; i--) v = (v << 64) | w[i]; return v; }

static int live(const secp256k1_musig_secnonce *s) {
    return memcmp(s->data, secp256k1_musig_secnonce_magic, 4) == 0 && !verif_allzero(&s->data[4], 64);
}

/* 1. partial_sign from any state */
void harness_partial_sign(void) {
    secp256k1_context ctx; inputs_t in = nondet_inputs(); secp256k1_musig_secnonce pre; secp256k1_musig_partial_sig psig0; int ret;
    verif_ctx_init(&ctx);
    pre = in.secnonce; psig0 = in.psig;
    ret = secp256k1_musig_partial_sign(&ctx, in.n1 ? NULL : &in.psig, &in.secnonce, in.n2 ? NULL : &in.keypair,
                                       in.n3 ? NULL : &in.cache, in.n4 ? NULL : &in.session);
    __CPROVER_assert(verif_allzero(&in.secnonce, sizeof(in.secnonce)), "secnonce all-zero after every partial_sign call");
    __CPROVER_assert(ret == 0 || ret == 1, "boolean result");
    __CPROVER_assert(verif_error_count == 0, "no error callback");
    if (ret) {
        __CPROVER_assert(verif_illegal_count == 0, "success => no illegal callback");
        __CPROVER_assert(live(&pre), "success => secnonce was live (magic, non-zero k)");
        __CPROVER_assert(!in.n1 && !in.n2 && !in.n3 && !in.n4, "success => all arguments present");
        __CPROVER_assert((st_val(&pre.data[68]) % verif_P()) == (st_val(&in.keypair.data[32]) % verif_P()), "success => nonce bound key x == keypair pk x");
        __CPROVER_assert((st_val(&pre.data[100]) % verif_P()) == (st_val(&in.keypair.data[64]) % verif_P()), "success => nonce bound key y == keypair pk y");
        __CPROVER_assert(!verif_allzero(&in.keypair.data[0], 32), "success => keypair secret non-zero");
        __CPROVER_assert(0, "witness: partial_sign success reachable");
    } else {
        __CPROVER_assert(memcmp(&in.psig, &psig0, sizeof(psig0)) == 0, "failure => no partial signature bytes written");
    }
    if (!live(&pre)) {
        __CPROVER_assert(ret == 0, "dead/zero/used secnonce => no signature");
        __CPROVER_assert(verif_illegal_count == 1, "dead secnonce => exactly one illegal callback");
    }
}

/* 2. nonce_gen from any arguments */
void harness_nonce_gen(void) {
    secp256k1_context ctx; inputs_t in = nondet_inputs(); int ret; unsigned char rand0[32]; int zero_rand;
    secp256k1_ge pk;
    verif_ctx_init(&ctx);
    ctx.ecmult_gen_ctx.built = in.n7 & 1;      /* static-context copies included */
    memcpy(rand0, in.rand, 32); zero_rand = verif_allzero(rand0, 32);
    ret = secp256k1_musig_nonce_gen(&ctx, &in.secnonce, in.n1 ? NULL : &in.pubnonce, in.n2 ? NULL : in.rand, in.n3 ? NULL : in.seckey,
                                    in.n4 ? NULL : &in.pubkey, in.n5 ? NULL : in.msg, in.n6 ? NULL : &in.cache, in.extra);
    __CPROVER_assert(ret == 0 || ret == 1, "boolean result");
    __CPROVER_assert(verif_error_count == 0, "no error callback");
    if (!in.n2 && zero_rand) __CPROVER_assert(ret == 0, "all-zero session randomness rejected");
    if (ret) {
        __CPROVER_assert(!in.n2 && verif_allzero(in.rand, 32), "success => caller randomness wiped");
        /* k == 0 for both hash outputs is the event the library calls negligible (VERIFY_CHECK only): magic is still set */
        __CPROVER_assert(memcmp(in.secnonce.data, secp256k1_musig_secnonce_magic, 4) == 0, "success => secnonce carries the magic");
        __CPROVER_assert(verif_illegal_count == 0, "success => no illegal callback");
        __CPROVER_assert(!in.n4 && st_val(&in.secnonce.data[68]) == st_val(&in.pubkey.data[0]) % verif_P()
                         && st_val(&in.secnonce.data[100]) == st_val(&in.pubkey.data[32]) % verif_P(), "success => secnonce bound to the supplied pubkey (canonical x,y)");
        __CPROVER_assert(ctx.ecmult_gen_ctx.built, "success => proper context");
        __CPROVER_assert(0, "witness: nonce_gen success reachable");
    } else {
        __CPROVER_assert(verif_allzero(&in.secnonce, sizeof(in.secnonce)), "failure => secnonce all-zero");
        if (!in.n2 && !zero_rand && !in.n1 && !in.n4 && ctx.ecmult_gen_ctx.built && verif_illegal_count == 0) {
            /* the only silent failure is an invalid secret key: randomness is then deliberately kept */
            __CPROVER_assert(!in.n3, "silent failure only with a seckey argument");
        }
    }
    (void)pk;
}

/* 2b. nonce_gen_counter */
void harness_nonce_gen_counter(void) {
    secp256k1_context ctx; inputs_t in = nondet_inputs(); int ret;
    verif_ctx_init(&ctx);
    ctx.ecmult_gen_ctx.built = in.n7 & 1;
    ret = secp256k1_musig_nonce_gen_counter(&ctx, &in.secnonce, in.n1 ? NULL : &in.pubnonce, in.cnt, in.n2 ? NULL : &in.keypair,
                                            in.n5 ? NULL : in.msg, in.n6 ? NULL : &in.cache, in.n3 ? NULL : in.extra);
    __CPROVER_assert(ret == 0 || ret == 1, "boolean result");
    __CPROVER_assert(verif_error_count == 0, "no error callback");
    if (ret) {
        __CPROVER_assert(memcmp(in.secnonce.data, secp256k1_musig_secnonce_magic, 4) == 0, "success => secnonce carries the magic");
        __CPROVER_assert(verif_illegal_count == 0, "success => no illegal callback");
        __CPROVER_assert(!in.n2 && st_val(&in.secnonce.data[68]) == st_val(&in.keypair.data[32]) % verif_P()
                         && st_val(&in.secnonce.data[100]) == st_val(&in.keypair.data[64]) % verif_P(), "success => secnonce bound to the keypair's public key (canonical x,y)");
        __CPROVER_assert(0, "witness: nonce_gen_counter success reachable");
    } else {
        __CPROVER_assert(verif_allzero(&in.secnonce, sizeof(in.secnonce)), "failure => secnonce all-zero");
    }
}

/* 3. no other MuSig API writes a secnonce or resurrects one: the only functions with a non-const
 *    secp256k1_musig_secnonce* parameter are the three above (checked syntactically by the driver, see props/C13.py). */
