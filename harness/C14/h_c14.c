/* C14 (engine W): ECDSA adaptor signatures -- 162-byte codec, verify structure, decrypt and recover algebra glue, failure masking. */
#include "cfg_full.h"
#include "secp256k1.c"
#include "vcommon.h"
#define W_FIELD_TRANSPARENT
#define W_OWN_SQRT
#define W_SCALAR_UF
#define W_SHA_HAVOC
#include "w_stubs.h"
#define GLUE_ADD
#define GLUE_MAX 6
#include "w_glue.h"
#define N verif_N()
#define P verif_P()
static bvw HALF_N(void) { return verif_N() >> 1; }
/* lift_x decisions recorded per call; successful roots are non-zero (the curve has no point with y = 0) */
static int sqrt_calls, sqrt_ret[3];
int STUB_secp256k1_fe_sqrt(secp256k1_fe * SECP256K1_RESTRICT r, const secp256k1_fe * SECP256K1_RESTRICT a) { int v = nondet_int() & 1; (void)a; *r = verif_fe_m1(); __CPROVER_assume(fe_val(r) % verif_P() != 0); if (sqrt_calls < 3) sqrt_ret[sqrt_calls] = v; sqrt_calls++; return v; }
static int dv_calls, dv_ret; static secp256k1_scalar dv_s, dv_e; static secp256k1_ge dv_p1, dv_g2, dv_p2;
int STUB_secp256k1_dleq_verify(const secp256k1_hash_ctx *hash_ctx, const secp256k1_scalar *s, const secp256k1_scalar *e, secp256k1_ge *p1, secp256k1_ge *gen2, secp256k1_ge *p2) {
    (void)hash_ctx; dv_calls++; dv_s = *s; dv_e = *e; dv_p1 = *p1; dv_g2 = *gen2; dv_p2 = *p2; dv_ret = nondet_int() & 1; return dv_ret;
}
static int dp_calls, dp_ret;
int STUB_secp256k1_dleq_prove(const secp256k1_context *ctx, secp256k1_scalar *s, secp256k1_scalar *e, const secp256k1_scalar *sk, secp256k1_ge *p1, secp256k1_ge *gen2, secp256k1_ge *p2, secp256k1_nonce_function_hardened_ecdsa_adaptor noncefp, void *ndata) {
    (void)ctx; (void)sk; (void)p1; (void)gen2; (void)p2; (void)noncefp; (void)ndata; dp_calls++; *s = verif_sc(); *e = verif_sc(); dp_ret = nondet_int() & 1; return dp_ret;
}

typedef struct { unsigned char a[162], msg[32], key[32]; secp256k1_pubkey pk, enc; secp256k1_ecdsa_signature sig; } in_t; in_t nondet_in(void);
#define CANON_PK(pk) __CPROVER_assume(st_val(&(pk).data[0]) < P && st_val(&(pk).data[32]) < P)

void harness_verify(void) {
    secp256k1_context ctx; in_t in = nondet_in(); int r, okR, okRp; bvw rx = be_val(in.a + 1, 32), rpx = be_val(in.a + 34, 32), sp = be_val(in.a + 66, 32), ds = be_val(in.a + 130, 32), px, ex;
    verif_ctx_init(&ctx); glue_init(); CANON_PK(in.pk); CANON_PK(in.enc); px = st_val(&in.pk.data[0]); ex = st_val(&in.enc.data[0]);
    r = secp256k1_ecdsa_adaptor_verify(&ctx, in.a, &in.pk, in.msg, &in.enc);
    okR = (in.a[0] == 2 || in.a[0] == 3) && rx < P && sqrt_calls >= 1 && sqrt_ret[0];
    okRp = (in.a[33] == 2 || in.a[33] == 3) && rpx < P && sqrt_calls >= 2 && sqrt_ret[1];
    __CPROVER_assert(r == 0 || r == 1, "boolean");
    if (r) {
        __CPROVER_assert(okR && okRp, "accept => R and R' are valid compressed points (prefix, x < p, on the curve)");
        __CPROVER_assert(rx % N != 0, "accept => R.x mod n != 0");
        __CPROVER_assert(sp != 0 && sp < N && ds < N, "accept => 0 < s' < n and DLEQ response < n");
        __CPROVER_assert(px != 0 && ex != 0, "accept => both keys valid");
        __CPROVER_assert(dv_calls == 1 && dv_ret == 1, "accept => the DLEQ proof verified");
        __CPROVER_assert((bvw)sc_bv(&dv_s) == ds && (bvw)sc_bv(&dv_e) == be_val(in.a + 98, 32) % N, "DLEQ verifier gets the proof's (s, e)");
        __CPROVER_assert(fe_val(&dv_p1.x) == rpx && fe_val(&dv_p2.x) == rx && fe_val(&dv_g2.x) == ex, "DLEQ statement is (R', Y, R)");
        { sbv sn = uf_scinv((sbv)sp);
          __CPROVER_assert(glue_kind[0] == 1 && gej_is(&glue_a[0], px, st_val(&in.pk.data[32])) && sc_bv(&glue_na[0]) == uf_scmul(sn, (sbv)(rx % N)) && sc_bv(&glue_ng[0]) == uf_scmul(sn, (sbv)(be_val(in.msg, 32) % N)), "adaptor equation uses (m/s') G + (R.x/s') X"); }
        __CPROVER_assert(!glue_R[0].infinity && glue_kind[1] == 4 && fe_val(&glue_b[1].x) == rpx && glue_R[1].infinity, "accept => R' - derived point is the point at infinity");
        __CPROVER_assert(0, "witness: acceptance reachable");
    }
    __CPROVER_assert(verif_error_count == 0, "no error callback");
}

void harness_decrypt(void) {
    secp256k1_context ctx; in_t in = nondet_in(); secp256k1_ecdsa_signature sig; unsigned char c64[64]; int r; bvw y = be_val(in.key, 32), rx = be_val(in.a + 1, 32) % N, sp = be_val(in.a + 66, 32), s0;
    verif_ctx_init(&ctx); memset(&sig, 0xA5, sizeof(sig));
    r = secp256k1_ecdsa_adaptor_decrypt(&ctx, &sig, in.key, in.a);
    secp256k1_ecdsa_signature_serialize_compact(&ctx, c64, &sig);
    __CPROVER_assert(r == (y != 0 && y < N && rx != 0 && sp != 0 && sp < N), "decrypt fails exactly for a zero / out-of-range decryption key or a malformed adaptor signature");
    if (r) { s0 = (bvw)uf_scmul(uf_scinv((sbv)y), (sbv)sp);
        __CPROVER_assert(be_val(c64, 32) == rx && be_val(c64 + 32, 32) == (s0 > HALF_N() ? N - s0 : s0), "signature == (R.x mod n, low-S form of s'/y)");
        __CPROVER_assert(!(s0 > HALF_N()), "witness: negated s");
    } else __CPROVER_assert(verif_allzero(&sig, sizeof(sig)), "failure => all-zero signature");
    __CPROVER_assert(verif_illegal_count == 0, "no illegal callback");
}

void harness_recover(void) {
    secp256k1_context ctx; in_t in = nondet_in(); unsigned char out[32]; int r; bvw rr, ss, rx = be_val(in.a + 1, 32) % N, sp = be_val(in.a + 66, 32), ex, ey, d;
    verif_ctx_init(&ctx); glue_init(); CANON_PK(in.enc); ex = st_val(&in.enc.data[0]); ey = st_val(&in.enc.data[32]);
    rr = st_val(&in.sig.data[0]); ss = st_val(&in.sig.data[32]); __CPROVER_assume(rr < N && ss < N);
    __CPROVER_assume(!glue_R[0].infinity);
    memset(out, 0xA5, 32);
    r = secp256k1_ecdsa_adaptor_recover(&ctx, out, &in.sig, in.a, &in.enc);
    if (rx == 0 || sp == 0 || sp >= N) __CPROVER_assert(r == 0, "malformed adaptor signature refused");
    if (rr != rx) __CPROVER_assert(r == 0, "signature with a different r refused");
    if (ss == 0) __CPROVER_assert(r == 0, "zero s refused");
    if (r) {
        d = (bvw)uf_scmul(uf_scinv((sbv)ss), (sbv)sp);
        __CPROVER_assert(glue_kind[0] == 2 && (bvw)sc_bv(&glue_ng[0]) == d, "candidate key y = s'/s is checked against the encryption key");
        __CPROVER_assert(ex != 0 && fe_val(&glue_R[0].x) == ex, "success => y G has the encryption key's x");
        __CPROVER_assert(be_val(out, 32) == (((fe_val(&glue_R[0].y) ^ ey) & 1) ? (d == 0 ? 0 : N - d) : d), "recovered key is y, negated when y G = -Y (negated-s twin)");
        __CPROVER_assert(!((fe_val(&glue_R[0].y) ^ ey) & 1), "witness: recovery through the negated twin");
    }
    if (!r) __CPROVER_assert(rx == 0 || sp == 0 || sp >= N || rr != rx || ss == 0 || ex == 0 || fe_val(&glue_R[0].x) != ex, "recover fails only for the documented reasons");
}

/* encrypt: failure masking */
static int nf_ret; static unsigned char nf_out[32];
static int custom_nonce(unsigned char *nonce32, const unsigned char *msg32, const unsigned char *key32, const unsigned char *pk33, const unsigned char *algo, size_t algolen, void *data) {
    struct verif_nonce { unsigned char b[32]; } nondet_nonce(void); struct verif_nonce v = nondet_nonce(); (void)msg32; (void)key32; (void)pk33; (void)algo; (void)algolen; (void)data;
    memcpy(nonce32, v.b, 32); memcpy(nf_out, v.b, 32); nf_ret = nondet_int(); return nf_ret;
}
void harness_encrypt(void) {
    secp256k1_context ctx; in_t in = nondet_in(); unsigned char out[162]; int r; bvw d = be_val(in.key, 32), ex;
    verif_ctx_init(&ctx); glue_init(); CANON_PK(in.enc); ex = st_val(&in.enc.data[0]);
    __CPROVER_assume(!glue_R[0].infinity && !glue_R[1].infinity);
    memset(out, 0xA5, 162);
    r = secp256k1_ecdsa_adaptor_encrypt(&ctx, out, in.key, &in.enc, in.msg, custom_nonce, NULL);
    if (ex == 0) __CPROVER_assert(r == 0 && verif_illegal_count == 1, "invalid encryption key is an argument error");
    else {
        if (d == 0 || d >= N || !nf_ret || !dp_ret) __CPROVER_assert(r == 0, "invalid signing key, failing nonce function or failing DLEQ proof => failure");
        {   /* exact success set and s' = k^-1 (R.x d + m) with the message REDUCED mod n (messages >= n are valid inputs) */
            bvw k = redN(be_val(nf_out, 32)), sigr = redN(fe_val(&glue_R[0].x)), mm = redN(be_val(in.msg, 32)), sp;
            int dok = d != 0 && d < N;
            sp = (bvw)uf_scmul(uf_scinv((sbv)(nf_ret && k != 0 ? k : 1)), (sbv)addN((bvw)uf_scmul((sbv)sigr, (sbv)(dok ? d : 1)), mm));
            if (nf_ret && k != 0 && dp_ret && dok) {
                __CPROVER_assert(r == (sigr != 0 && sp != 0), "encrypt succeeds exactly when R.x mod n != 0 and s' != 0 (any 32-byte message, reduced mod n)");
                if (r) __CPROVER_assert(be_val(out + 66, 32) == sp, "s' = k^-1 (R.x d + (m mod n))");
                __CPROVER_assert(!(r && be_val(in.msg, 32) >= N), "witness: success with a message >= n");
            }
        }
        if (!r) __CPROVER_assert(verif_allzero(out, 162), "failure => 162 zero bytes");
        if (r) { __CPROVER_assert((out[0] == 2 || out[0] == 3) && (out[33] == 2 || out[33] == 3) && be_val(out + 66, 32) != 0 && be_val(out + 66, 32) < N && be_val(out + 1, 32) == fe_val(&glue_R[0].x) && be_val(out + 34, 32) == fe_val(&glue_R[1].x), "success => (R = kY, R' = kG, 0 < s' < n) serialized");
                 __CPROVER_assert(glue_kind[0] == 3 && glue_kind[1] == 2 && sc_bv(&glue_na[0]) == sc_bv(&glue_ng[1]), "R and R' use the same nonce"); __CPROVER_assert(0, "witness: encrypt success"); }
    }
}
