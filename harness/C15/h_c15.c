/* C15 (engine W): sign-to-contract / anti-exfil -- commitment check exactness, tweak hash layout, and equality of the two
 * separately written nonce derivations (signer_commit through the static context vs. s2c_sign through the caller's context). */
#include "cfg_full.h"
#include "secp256k1.c"
#include "vcommon.h"
#define W_FIELD_TRANSPARENT
#define W_SCALAR_UF
#define W_SHA_UF
#include "w_stubs.h"
#define GLUE_MAX 6
#define REF_SHA_MAX 128
#include "ref_sha.h"
#define N verif_N()
#define P verif_P()

#ifdef VERIFY_COMMIT
#include "w_glue.h"
typedef struct { secp256k1_ecdsa_signature sig; unsigned char data[32], msg[32]; secp256k1_ecdsa_s2c_opening op; secp256k1_pubkey pk; } in_t; in_t nondet_in(void);
void harness_verify_commit(void) {
    secp256k1_context ctx; in_t in = nondet_in(); int r; bvw ox, oy, rr, t; unsigned char cat[65], h[32]; secp256k1_sha256 tg;
    verif_ctx_init(&ctx); glue_init();
    ox = st_val(&in.op.data[0]); oy = st_val(&in.op.data[32]); __CPROVER_assume(ox < P && oy < P);
    rr = st_val(&in.sig.data[0]); __CPROVER_assume(rr < N && st_val(&in.sig.data[32]) < N);
    r = secp256k1_ecdsa_s2c_verify_commit(&ctx, &in.sig, in.data, &in.op);
    /* reference: tweak = H_tag("s2c/ecdsa/point")(ser33(original nonce point) || data) */
    cat[0] = 2 + (int)(oy & 1); be32_of(cat + 1, ox); memcpy(cat + 33, in.data, 32);
    secp256k1_s2c_ecdsa_point_sha256_tagged(&tg); ref_sha256_from(tg.s, 64, cat, 65, h); t = be_val(h, 32);
    if (ox == 0) __CPROVER_assert(r == 0 && verif_illegal_count == 1, "invalid opening object is an argument error");
    else if (t >= N) __CPROVER_assert(r == 0 && glue_calls == 0, "tweak >= n => commitment check fails");
    else {
        __CPROVER_assert(glue_calls == 1 && glue_kind[0] == 1 && gej_is(&glue_a[0], ox, oy) && (bvw)sc_bv(&glue_na[0]) == 1 && (bvw)sc_bv(&glue_ng[0]) == t, "commitment point = R0 + H(R0 || data) G with the specified tagged hash over ser33(R0) || data");
        __CPROVER_assert(r == (!glue_R[0].infinity && fe_val(&glue_R[0].x) % N == rr), "verify_commit == (commitment finite and x mod n == sig r)");
        __CPROVER_assert(!r, "witness: commitment accepted");
    }
}
/* host_verify == verify_commit && ecdsa_verify (both evaluated on the same arguments) */
void harness_host_verify(void) {
    secp256k1_context ctx, c2; in_t in = nondet_in(); int r, a, b;
    verif_ctx_init(&ctx); glue_init(); c2 = ctx;
    __CPROVER_assume(st_val(&in.op.data[0]) < P && st_val(&in.op.data[32]) < P && st_val(&in.op.data[0]) != 0);
    __CPROVER_assume(st_val(&in.pk.data[0]) < P && st_val(&in.pk.data[32]) < P && st_val(&in.pk.data[0]) != 0);
    __CPROVER_assume(st_val(&in.sig.data[0]) < N && st_val(&in.sig.data[32]) < N);
    glue_R[2] = glue_R[0]; glue_R[3] = glue_R[1];           /* the same curve results on replay */
    r = secp256k1_anti_exfil_host_verify(&ctx, &in.sig, in.msg, &in.pk, in.data, &in.op);
    { int used = glue_calls; if (used == 1) { glue_R[3] = glue_R[2]; glue_R[2] = glue_R[0]; } glue_calls = 2; }
    a = secp256k1_ecdsa_s2c_verify_commit(&c2, &in.sig, in.data, &in.op);
    b = secp256k1_ecdsa_verify(&c2, &in.sig, in.msg, &in.pk);
    (void)a; (void)b;
    if (r) __CPROVER_assert(a == 1, "host_verify accepts only if the commitment check accepts");
    if (r) __CPROVER_assert(b == 1, "host_verify accepts only if secp256k1_ecdsa_verify (incl. its low-S rule) accepts the same signature");
    __CPROVER_assert(r == (a && b), "host_verify == verify_commit && ecdsa_verify on the same arguments");
    __CPROVER_assert(!r, "witness: host_verify accepts");
}
#endif

#ifdef NONCE_EQ
/* RFC 6979 generator as an uninterpreted function of (key material, length, draw index) */
typedef unsigned __CPROVER_bitvector[896] bv896;
bv256 __CPROVER_uninterpreted_rfckey(bv896 key, unsigned len);      /* instantiate: key material -> generator state */
bv256 __CPROVER_uninterpreted_rfcgen(bv256 state, unsigned idx);     /* idx-th 32-byte draw */
void STUB_secp256k1_rfc6979_hmac_sha256_initialize(const secp256k1_hash_ctx *hash_ctx, secp256k1_rfc6979_hmac_sha256 *rng, const unsigned char *key, size_t keylen) {
    bv896 k = 0; bv256 st; size_t i; (void)hash_ctx;
    __CPROVER_assert(keylen <= 112, "rfc6979 model bounds");
    for (i = 0; i < 112; i++) k = (k << 8) | (i < keylen ? key[i] : 0);
    st = __CPROVER_uninterpreted_rfckey(k, (unsigned)keylen);
    for (i = 0; i < 32; i++) { rng->k[31 - i] = (unsigned char)st; st >>= 8; }
    rng->retry = 0;
}
static int rfc_draws;
void STUB_secp256k1_rfc6979_hmac_sha256_generate(const secp256k1_hash_ctx *hash_ctx, secp256k1_rfc6979_hmac_sha256 *rng, unsigned char *out, size_t outlen) {
    bv256 v, st = 0; int i; (void)hash_ctx; __CPROVER_assert(outlen == 32, "32-byte draws");
    rfc_draws++; __CPROVER_assume(rfc_draws <= 2);     /* bound: one draw in signer_commit, one in the first signing attempt (retries: probability ~2^-256, outside the claim) */
    for (i = 0; i < 32; i++) st = (st << 8) | rng->k[i];
    v = __CPROVER_uninterpreted_rfcgen(st, (unsigned)rng->retry); rng->retry++;
    __CPROVER_assume(v != 0 && (bvw)v < N);            /* bound: every draw is a valid nonce (the retry loops are cut) */
    for (i = 31; i >= 0; i--) { out[i] = (unsigned char)v; v >>= 8; }
}
/* fixed-base multiplication as an uninterpreted function scalar -> affine point */
bv256 __CPROVER_uninterpreted_gx(bv256 k); bv256 __CPROVER_uninterpreted_gy(bv256 k);
static void fe_from_bv(secp256k1_fe *r, bv256 v) { r->n[0] = (uint64_t)v & 0xFFFFFFFFFFFFFULL; r->n[1] = (uint64_t)(v >> 52) & 0xFFFFFFFFFFFFFULL; r->n[2] = (uint64_t)(v >> 104) & 0xFFFFFFFFFFFFFULL; r->n[3] = (uint64_t)(v >> 156) & 0xFFFFFFFFFFFFFULL; r->n[4] = (uint64_t)(v >> 208); }
static secp256k1_scalar gen_arg[4]; static int gen_calls;
void STUB_secp256k1_ecmult_gen(const secp256k1_ecmult_gen_context *ctx, secp256k1_gej *r, const secp256k1_scalar *gn) {
    bv256 x = __CPROVER_uninterpreted_gx(sc_bv(gn)), y = __CPROVER_uninterpreted_gy(sc_bv(gn)); (void)ctx;
    __CPROVER_assume((bvw)x < P && (bvw)y < P && x != 0);
    if (gen_calls < 4) gen_arg[gen_calls] = *gn; gen_calls++;
    fe_from_bv(&r->x, x); fe_from_bv(&r->y, y); r->z.n[0] = 1; r->z.n[1] = r->z.n[2] = r->z.n[3] = r->z.n[4] = 0; r->infinity = 0;
}
typedef struct { unsigned char key[32], msg[32], rho[32]; } ne_in_t; ne_in_t nondet_ne_in(void);
void harness_nonce_eq(void) {
    secp256k1_context ctx; ne_in_t in = nondet_ne_in(); unsigned char commit[32]; secp256k1_ecdsa_s2c_opening o1, o2; secp256k1_ecdsa_signature sig; int r1, r2; bvw d = be_val(in.key, 32);
    verif_ctx_init(&ctx);
    __CPROVER_assume(d != 0 && d < N);
    __CPROVER_assert(secp256k1_ecdsa_anti_exfil_host_commit(&ctx, commit, in.rho) == 1, "host_commit succeeds");
    r1 = secp256k1_ecdsa_anti_exfil_signer_commit(&ctx, &o1, in.msg, in.key, commit);
    r2 = secp256k1_ecdsa_s2c_sign(&ctx, &sig, &o2, in.msg, in.key, in.rho);
    __CPROVER_assert(r1 == 1, "signer_commit succeeds");
    __CPROVER_assert(sc_bv(&gen_arg[0]) == sc_bv(&gen_arg[1]), "both derivations yield the same original nonce (msg incl. >= n, any key, any host randomness)");
    /* a signing retry (r == 0 or s == 0 on the first nonce: probability ~2^-256, reachable here only because the scalar product is an
     * arbitrary function) legitimately moves on to the next nonce; the claim is for the first-attempt signature: 1 + 2 fixed-base multiplications */
    if (r2 && gen_calls == 3) __CPROVER_assert(memcmp(&o1, &o2, sizeof(o1)) == 0, "opening committed to by the signer == opening of the later signature");
    __CPROVER_assert(!(r2 && gen_calls == 3), "witness: first-attempt s2c signature");
    __CPROVER_assert(verif_error_count == 0 && verif_illegal_count == 0, "no callbacks");
    __CPROVER_assert(!r2, "witness: s2c_sign success"); __CPROVER_assert(be_val(in.msg, 32) < N, "witness: message >= n");
}
#endif
