/* C16 (engine W): whitelist verify / sign / codec -- structural clauses at real width, any kernel result. */
#include "cfg_full.h"
#include "secp256k1.c"
#include "vcommon.h"
#define W_FIELD
#define W_SCALAR
#define W_ECMULT
#define W_SHA_API
#include "w_stubs.h"

/* sign harness only: RFC 6979 outputs are assumed to be valid non-zero scalars, which cuts the (otherwise unbounded) retry loop */
#ifdef WL_SIGN
void STUB_secp256k1_rfc6979_hmac_sha256_generate(const secp256k1_hash_ctx *hash_ctx, secp256k1_rfc6979_hmac_sha256 *rng, unsigned char *out, size_t outlen) {
    struct verif_digest d = nondet_digest(); (void)hash_ctx; (void)rng;
    __CPROVER_assume(be_val(d.b, 32) != 0 && be_val(d.b, 32) < verif_N());
    __CPROVER_assert(outlen == 32, "rfc6979 generate asked for 32 bytes");
    memcpy(out, d.b, 32);
}
#endif
#ifndef MAXK
#define MAXK 4
#endif
typedef struct { secp256k1_whitelist_signature sig; secp256k1_pubkey on[MAXK + 1], off[MAXK + 1], sub; size_t n_keys, index; unsigned char sk1[32], sk2[32]; } wl_in_t;
wl_in_t nondet_wl_in(void);

/* class K: caller count and recorded count both ASSIGNED to K (concrete loop bounds), everything else symbolic */
#ifndef K
#define K 1
#endif
void harness_wl_verify(void) {
    secp256k1_context ctx; wl_in_t in = nondet_wl_in(); int ret, bad = 0; size_t i;
    verif_ctx_init(&ctx);
    in.n_keys = K; in.sig.n_keys = K;
    ret = secp256k1_whitelist_verify(&ctx, &in.sig, in.on, in.off, in.n_keys, &in.sub);
    __CPROVER_assert(ret == 0 || ret == 1, "boolean result");
    __CPROVER_assert(verif_error_count == 0, "no error callback");
    for (i = 0; i < K; i++) { bvw v = be_val(&in.sig.data[32 * (i + 1)], 32); if (v == 0 || v >= verif_N()) bad = 1; }
    if (bad) __CPROVER_assert(ret == 0, "zero or out-of-range ring scalar rejected");
    if (K == 0) __CPROVER_assert(ret == 0, "empty key list never verifies");
#if K > 0
    __CPROVER_assert(!ret, "witness: acceptance reachable");
#endif
}
#ifdef WL_HANDOVER
/* verdict and hand-over: for well-formed scalars the verdict is the ring verifier's, over one ring of K keys, the proof's e0 and scalars --
 * also when the per-entry key tweak fails for some entry (e.g. offline_j = -W makes the summed key infinite): such an entry must not
 * prevent the OTHER members' valid proofs from verifying */
static int bor_calls, bor_ret; static size_t bor_nr, bor_rs0; static const unsigned char *bor_e0; static secp256k1_scalar bor_s[K + 1];
int STUB_secp256k1_borromean_verify(const secp256k1_hash_ctx *hash_ctx, secp256k1_scalar *evalues, const unsigned char *e0, const secp256k1_scalar *s, const secp256k1_gej *pubs, const size_t *rsizes, size_t nrings, const unsigned char *m, size_t mlen) {
    size_t i; (void)hash_ctx; (void)evalues; (void)pubs; (void)m; bor_calls++; bor_nr = nrings; bor_rs0 = rsizes[0]; bor_e0 = e0; __CPROVER_assert(mlen == 32, "32-byte message");
    for (i = 0; i < K; i++) bor_s[i] = s[i];
    bor_ret = nondet_int() & 1; return bor_ret;
}
static int hp_fail;
int STUB_secp256k1_whitelist_hash_pubkey(const secp256k1_hash_ctx *hash_ctx, secp256k1_scalar *output, secp256k1_gej *pubkey) { int r = nondet_int() & 1; (void)hash_ctx; (void)pubkey; *output = verif_sc(); if (!r) hp_fail = 1; return r; }
void harness_wl_handover(void) {
    secp256k1_context ctx; wl_in_t in = nondet_wl_in(); int ret, bad = 0, valid = 1; size_t i;
    verif_ctx_init(&ctx);
    in.n_keys = K; in.sig.n_keys = K;
    for (i = 0; i < K; i++) { if (be_val(&in.on[i].data[0], 32) == 0 || be_val(&in.off[i].data[0], 32) == 0) valid = 0; }   /* zero public key objects are an argument error */
    if (be_val(&in.sub.data[0], 32) == 0) valid = 0;
    __CPROVER_assume(valid);
    ret = secp256k1_whitelist_verify(&ctx, &in.sig, in.on, in.off, in.n_keys, &in.sub);
    for (i = 0; i < K; i++) { bvw v = be_val(&in.sig.data[32 * (i + 1)], 32); if (v == 0 || v >= verif_N()) bad = 1; }
    if (!bad) {
        __CPROVER_assert(bor_calls == 1 && ret == bor_ret, "well-formed scalars: the verdict is the ring verifier's (a degenerate entry does not abort verification)");
        __CPROVER_assert(bor_nr == 1 && bor_rs0 == K && bor_e0 == &in.sig.data[0], "one ring over all K keys, e0 = the proof's first 32 bytes");
        for (i = 0; i < K; i++) __CPROVER_assert(be_val(&in.sig.data[32 * (i + 1)], 32) == (bvw)sc_val(&bor_s[i]), "ring scalar i = proof bytes");
        __CPROVER_assert(!(ret && hp_fail), "witness: acceptance although one entry's tweak failed");
    }
    __CPROVER_assert(verif_illegal_count == 0 && verif_error_count == 0, "no callbacks for valid key objects");
}
#endif
/* count mismatch / oversize: every (sig->n_keys, n_keys) pair with sig->n_keys != n_keys or > 255; the ring code is unreachable,
 * which the (provable) unwinding assertions of its loops confirm */
void harness_wl_mismatch(void) {
    secp256k1_context ctx; wl_in_t in = nondet_wl_in(); int ret;
    verif_ctx_init(&ctx);
    __CPROVER_assume(in.sig.n_keys != in.n_keys || in.sig.n_keys > 255);
    ret = secp256k1_whitelist_verify(&ctx, &in.sig, in.on, in.off, in.n_keys, &in.sub);
    __CPROVER_assert(ret == 0, "key-count mismatch or more than 255 keys rejected");
    __CPROVER_assert(verif_illegal_count == 0 && verif_error_count == 0, "rejected without callbacks");
    __CPROVER_assert(in.n_keys != 0, "witness: mismatch with empty caller list reachable");
}

/* the secret-key gate on its own: all 2^512 (online, summed) pairs */
void harness_wl_privkey(void) {
    secp256k1_context ctx; wl_in_t in = nondet_wl_in(); secp256k1_scalar sk; int ret; bvw on, sm;
    verif_ctx_init(&ctx);
    ret = secp256k1_whitelist_compute_tweaked_privkey(&ctx, &sk, in.sk1, in.sk2);
    on = be_val(in.sk1, 32); sm = be_val(in.sk2, 32);
    if (on == 0 || on >= verif_N() || sm == 0 || sm >= verif_N()) __CPROVER_assert(ret == 0, "zero / out-of-range online or summed secret refused");
    if (!ret) __CPROVER_assert(secp256k1_scalar_is_zero(&sk), "refusal leaves no usable signing key");
    __CPROVER_assert(!ret, "witness: valid secrets accepted");
}

void harness_wl_sign_badidx(void) {
    secp256k1_context ctx; wl_in_t in = nondet_wl_in(); int ret;
    verif_ctx_init(&ctx);
    __CPROVER_assume(in.n_keys <= MAXK && in.index >= in.n_keys);     /* every out-of-range index for every list length incl. 0 */
    ret = secp256k1_whitelist_sign(&ctx, &in.sig, in.on, in.off, in.n_keys, &in.sub, in.sk1, in.sk2, in.index);
    __CPROVER_assert(ret == 0 && verif_illegal_count == 1, "index >= n_keys refused through the illegal callback, nothing else executed");
    __CPROVER_assert(in.n_keys != 0, "witness: empty list refused");
}

void harness_wl_sign(void) {
    secp256k1_context ctx; wl_in_t in = nondet_wl_in(); int ret; bvw on, sm;
    verif_ctx_init(&ctx);
    in.n_keys = K;
#ifdef IDX
    in.index = IDX;
#else
    __CPROVER_assume(in.index >= K);       /* every out-of-range index; must be refused before any key is touched */
#endif
    ret = secp256k1_whitelist_sign(&ctx, &in.sig, in.on, in.off, in.n_keys, &in.sub, in.sk1, in.sk2, in.index);
    on = be_val(in.sk1, 32); sm = be_val(in.sk2, 32);
    __CPROVER_assert(ret == 0 || ret == 1, "boolean result");
    if (on == 0 || on >= verif_N()) __CPROVER_assert(ret == 0, "zero / out-of-range online secret key refused");
    if (sm == 0 || sm >= verif_N()) __CPROVER_assert(ret == 0, "zero / out-of-range summed secret key refused");
    if (in.index >= in.n_keys) __CPROVER_assert(ret == 0 && verif_illegal_count == 1, "index >= n_keys refused through the illegal callback");
    if (ret) __CPROVER_assert(in.sig.n_keys == in.n_keys, "signature records the key count");
    __CPROVER_assert(!ret, "witness: signing success reachable");
}

/* codec, reject side: every (count byte, length) pair that does not match is rejected after reading at most input[0] */
typedef struct { unsigned char b0; size_t len; } wlr_in_t;
wlr_in_t nondet_wlr_in(void);
void harness_wl_parse_reject(void) {
    secp256k1_context ctx; wlr_in_t in = nondet_wlr_in(); secp256k1_whitelist_signature sig; unsigned char one[1]; int ret;
    verif_ctx_init(&ctx); one[0] = in.b0;
    __CPROVER_assume(in.len != 1 + 32 * ((size_t)in.b0 + 1));
    ret = secp256k1_whitelist_signature_parse(&ctx, &sig, one, in.len);       /* a 1-byte buffer: any further read is a bounds violation */
    __CPROVER_assert(ret == 0, "parse rejects every length other than 1 + 32*(count+1)");
    __CPROVER_assert(verif_illegal_count == 0 && verif_error_count == 0, "no callbacks");
    __CPROVER_assert(in.len != 33 + 32 * 255 + 1, "witness: one byte too long for 255 keys");
}
/* codec, accept side, count class K (assigned): round trip and exact-length serialization */
#define WLEN (33 + 32 * (K))
typedef struct { unsigned char in[WLEN]; size_t ol; } wla_in_t;
wla_in_t nondet_wla_in(void);
void harness_wl_parse_accept(void) {
    secp256k1_context ctx; wla_in_t in = nondet_wla_in(); secp256k1_whitelist_signature sig; unsigned char out[WLEN + 8]; size_t ol, i; int ret;
    verif_ctx_init(&ctx);
    in.in[0] = K;
    { EXACT(xin, in.in, WLEN);
    ret = secp256k1_whitelist_signature_parse(&ctx, &sig, xin, WLEN); }
    __CPROVER_assert(ret == 1, "parse accepts count byte + 32*(count+1) bytes");
    __CPROVER_assert(secp256k1_whitelist_signature_n_keys(&sig) == K, "n_keys reported");
    ol = in.ol; __CPROVER_assume(ol <= WLEN + 8);
    ret = secp256k1_whitelist_signature_serialize(&ctx, out, &ol, &sig);
    __CPROVER_assert(ret == (in.ol >= WLEN), "serialize succeeds exactly when the buffer holds the encoding");
    if (ret) {
        __CPROVER_assert(ol == WLEN, "serialize reports the exact length");
        for (i = 0; i < WLEN; i++) __CPROVER_assert(out[i] == in.in[i], "serialize(parse(x)) == x");
        __CPROVER_assert(0, "witness: round trip reached");
    }
    __CPROVER_assert(verif_illegal_count == 0 && verif_error_count == 0, "no callbacks");
}
