/* Concrete replay for C16 "n_keys == 0 => verify == 0": a 33-byte whitelist signature for an EMPTY key list,
 * computed from public data only, checked against the real (unstubbed) library code of the tree under test. */
#include <stdio.h>
#include "cfg_full.h"
#include "secp256k1.c"
int main(void) {
    secp256k1_context *ctx = secp256k1_context_create(SECP256K1_CONTEXT_NONE);
    unsigned char sk[32], c[33], msg32[32], e0[32], ser[33]; size_t cl = 33; secp256k1_pubkey sub, dummy[1];
    secp256k1_whitelist_signature sig; secp256k1_sha256 sha; int p, v;
    const secp256k1_hash_ctx *h = secp256k1_get_hash_context(ctx);
    memset(sk, 0x42, 32); secp256k1_ec_pubkey_create(ctx, &sub, sk);   /* any valid whitelisted key */
    secp256k1_ec_pubkey_serialize(ctx, c, &cl, &sub, SECP256K1_EC_COMPRESSED);
    secp256k1_sha256_initialize(&sha); secp256k1_sha256_write(h, &sha, c, 33); secp256k1_sha256_finalize(h, &sha, msg32);   /* m over the empty list */
    secp256k1_sha256_initialize(&sha); secp256k1_sha256_write(h, &sha, msg32, 32); secp256k1_sha256_finalize(h, &sha, e0); /* e0 = H(m) */
    ser[0] = 0; memcpy(ser + 1, e0, 32);
    p = secp256k1_whitelist_signature_parse(ctx, &sig, ser, 33);
    memset(dummy, 0, sizeof(dummy));
    v = p ? secp256k1_whitelist_verify(ctx, &sig, dummy, dummy, 0, &sub) : 0;
    printf("parse=%d verify(empty key list)=%d\n", p, v);
    if (p == 1 && v == 1) printf("REPRODUCED: forged proof for an empty key list verifies\n");
    return 0;
}
