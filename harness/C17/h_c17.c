/* C17 (engine W): Schnorr half-aggregation -- length logic for all size_t values, structural rejections, and
 * incremental == one-shot aggregation (byte-identical) with hash compression and scalar mul uninterpreted. */
#include "cfg_full.h"
#include "secp256k1.c"
#include "vcommon.h"
#define W_FIELD_TRANSPARENT
#define W_SCALAR_UF
#define W_SHA_UF
#include "w_stubs.h"
#define GLUE_MAX 16
#define GLUE_ADD
#include "w_glue.h"
static int sqrt_fail_at = -1, sqrt_calls_n;
/* lift_x decision recorded (the stub in w_stubs is replaced here) */
#ifndef NSIG
#define NSIG 2
#endif

#ifdef LENGTHS
/* all (n, aggsig_len) pairs with the wrong length: rejected before anything is read */
typedef struct { size_t n, len, nb, nn; } len_in_t; len_in_t nondet_len_in(void);
void harness_aggverify_len(void) {
    secp256k1_context ctx; len_in_t in = nondet_len_in(); unsigned char agg[1], msg[1]; secp256k1_xonly_pubkey pk[1]; int r;
    verif_ctx_init(&ctx);
    __CPROVER_assume(in.len != 32 * (in.n + 1) || in.n + 1 == 0 || in.n > (SIZE_MAX / 32) - 1);
    r = secp256k1_schnorrsig_aggverify(&ctx, pk, msg, in.n, agg, in.len);     /* 1-byte buffers: any read is a bounds violation */
    __CPROVER_assert(r == 0 && verif_illegal_count == 0, "aggverify rejects every length other than 32*(n+1) without reading");
    __CPROVER_assert(in.len != 32 * in.n, "witness: length for n-1 signatures");
}
void harness_incagg_len(void) {
    secp256k1_context ctx; len_in_t in = nondet_len_in(); unsigned char agg[1], msg[1], sigs[1]; secp256k1_xonly_pubkey pk[1]; int r; size_t len = in.len, n = in.nb + in.nn;
    verif_ctx_init(&ctx);
    __CPROVER_assume(n < in.nb || len / 32 == 0 || len / 32 - 1 < n);
    r = secp256k1_schnorrsig_inc_aggregate(&ctx, agg, &len, pk, msg, sigs, in.nb, in.nn);
    __CPROVER_assert(r == 0 && len == in.len, "inc_aggregate rejects count overflow and too-small buffers without touching anything");
    __CPROVER_assert(verif_illegal_count == (n < in.nb), "count overflow is an argument error");
    __CPROVER_assert(!(n < in.nb), "witness: n_before + n_new overflows");
}
#endif

#ifdef VERIFYN
/* aggverify, NSIG signatures (assigned): structural rejections; acceptance == final point at infinity */
typedef struct { unsigned char agg[32 * (NSIG + 1)], msgs[32 * NSIG + 1]; secp256k1_xonly_pubkey pk[NSIG + 1]; } av_in_t; av_in_t nondet_av_in(void);
void harness_aggverify(void) {
    secp256k1_context ctx; av_in_t in = nondet_av_in(); int r, i, badr = 0, badpk = 0; bvw s = be_val(&in.agg[32 * NSIG], 32);
    verif_ctx_init(&ctx); glue_init();
    for (i = 0; i < NSIG; i++) { __CPROVER_assume(st_val(&in.pk[i].data[0]) < verif_P() && st_val(&in.pk[i].data[32]) < verif_P());
        if (st_val(&in.pk[i].data[0]) == 0) badpk = 1; if (be_val(&in.agg[32 * i], 32) >= verif_P()) badr = 1; }
    { EXACT(xagg, in.agg, 32 * (NSIG + 1)); EXACT(xmsgs, in.msgs, 32 * NSIG);
    r = secp256k1_schnorrsig_aggverify(&ctx, in.pk, xmsgs, NSIG, xagg, 32 * (NSIG + 1)); }
    __CPROVER_assert(r == 0 || r == 1, "boolean");
    if (s >= verif_N()) __CPROVER_assert(r == 0, "aggregate s >= n rejected");
    if (badr) __CPROVER_assert(r == 0, "r_i >= p rejected");
    if (badpk) __CPROVER_assert(r == 0, "invalid public key rejected");
    {   /* final decision: accept <=> s*G == rhs as POINTS (both coordinates), rhs = the accumulated sum of z_i (R_i + e_i P_i) */
        int g = -1, k;
        for (k = 0; k < GLUE_MAX; k++) if (k < glue_calls && glue_kind[k] == 2) g = k;
        if (r) __CPROVER_assert(g >= 0 && (bvw)sc_bv(&glue_ng[g]) == s && verif_illegal_count == 0, "accept => lhs = s G for the aggregate's s, no illegal callback");
        if (g >= 0) {
            secp256k1_gej lhs = glue_R[g], rhs; int eq;
            if (NSIG == 0) { rhs = lhs; rhs.infinity = 1; } else rhs = glue_R[g - 1];
            __CPROVER_assert(NSIG == 0 || glue_kind[g - 1] == 5, "rhs is the running sum of the z_i T_i");
            eq = (lhs.infinity || rhs.infinity) ? (lhs.infinity && rhs.infinity) : (fe_val(&lhs.x) == fe_val(&rhs.x) && fe_val(&lhs.y) == fe_val(&rhs.y));
            __CPROVER_assert(r == eq, "aggverify accepts exactly when s*G equals the right-hand side as a point (x AND y)");
#if NSIG > 0
            __CPROVER_assert(!(!r && !lhs.infinity && !rhs.infinity && fe_val(&lhs.x) == fe_val(&rhs.x)), "witness: same x, opposite y is reachable and rejected");
#endif
        }
        __CPROVER_assert(!r, "witness: acceptance reachable");
    }
}
#endif

#ifdef INCAGG
/* incremental (NB then NN) == one-shot (NB+NN): identical bytes and length; writes stay inside 32*(n+1) */
#define NT (NB + NN)
typedef struct { unsigned char sigs[64 * NT + 1], msgs[32 * NT + 1]; secp256k1_xonly_pubkey pk[NT + 1]; size_t cap; } ia_in_t; ia_in_t nondet_ia_in(void);
void harness_incagg(void) {
    secp256k1_context ctx; ia_in_t in = nondet_ia_in(); unsigned char a1[32 * (NT + 1) + 32], a2[32 * (NT + 1) + 32]; size_t l1, l2; int r1, r2, i;
    verif_ctx_init(&ctx);
    for (i = 0; i < NT; i++) __CPROVER_assume(st_val(&in.pk[i].data[0]) < verif_P() && st_val(&in.pk[i].data[32]) < verif_P() && st_val(&in.pk[i].data[0]) != 0);
    memset(a1, 0xA5, sizeof(a1)); memset(a2, 0xA5, sizeof(a2));
    __CPROVER_assume(in.cap >= 32 * (NT + 1) && in.cap <= sizeof(a1));
    l1 = in.cap; r1 = secp256k1_schnorrsig_aggregate(&ctx, a1, &l1, in.pk, in.msgs, in.sigs, NT);
    l2 = in.cap; r2 = secp256k1_schnorrsig_inc_aggregate(&ctx, a2, &l2, in.pk, in.msgs, in.sigs, 0, NB);
    __CPROVER_assert(r2 == 1 && l2 == 32 * (NB + 1), "first part aggregates to 32*(n1+1) bytes");
    l2 = in.cap; r2 = secp256k1_schnorrsig_inc_aggregate(&ctx, a2, &l2, in.pk, in.msgs, in.sigs + 64 * NB, NB, NN);
    __CPROVER_assert(r1 == 1 && r2 == 1 && l1 == 32 * (NT + 1) && l2 == l1, "both schedules succeed with exactly 32*(n+1) bytes");
    __CPROVER_assert(memcmp(a1, a2, sizeof(a1)) == 0, "incremental aggregation == one-shot aggregation, byte for byte (and nothing written beyond 32*(n+1))");
    for (i = 0; i < NT; i++) __CPROVER_assert(memcmp(a1 + 32 * i, in.sigs + 64 * i, 32) == 0, "aggregate carries r_i in order");
    for (i = 32 * (NT + 1); i < (int)sizeof(a1); i++) __CPROVER_assert(a1[i] == 0xA5, "nothing written beyond the aggregate");
    __CPROVER_assert(verif_illegal_count == 0, "no illegal callback");
    __CPROVER_assert(a1[32 * NT] == 0, "witness: aggregate s non-trivial");
}
#endif
