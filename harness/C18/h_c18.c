/* C18 (engine W): ECDH and ElligatorSwift XDH glue -- failure sets, hand-over to the curve layer, hash selection and byte layouts. */
#include "cfg_full.h"
#include "secp256k1.c"
#include "vcommon.h"
#define W_FIELD_TRANSPARENT
#define W_SCALAR_UF
#define W_SHA_UF
#include "w_stubs.h"
#define GLUE_MAX 4
#include "w_glue.h"
#define REF_SHA_MAX 300
#include "ref_sha.h"
#define N verif_N()
#define P verif_P()

/* the ElligatorSwift map and the x-only ladder are opaque and recorded */
static secp256k1_fe rec_u, rec_t, rec_xn, rec_xd, ret_xn, ret_xd, ret_px; static secp256k1_scalar rec_q; static int frac_calls, xonly_calls, rec_known;
void STUB_secp256k1_ellswift_xswiftec_frac_var(secp256k1_fe *xn, secp256k1_fe *xd, const secp256k1_fe *u, const secp256k1_fe *t) { frac_calls++; rec_u = *u; rec_t = *t; ret_xn = verif_fe_m1(); ret_xd = verif_fe_m1(); *xn = ret_xn; *xd = ret_xd; }
int STUB_secp256k1_ecmult_const_xonly(secp256k1_fe *r, const secp256k1_fe *n, const secp256k1_fe *d, const secp256k1_scalar *q, int known_on_curve) { xonly_calls++; rec_xn = *n; rec_xd = *d; rec_q = *q; rec_known = known_on_curve; ret_px = verif_fe_m1(); *r = ret_px; return 1; }

typedef struct { unsigned char sk[32], a64[64], b64[64], data[64]; secp256k1_pubkey pk; int party, mode; } in_t; in_t nondet_in(void);
static int h_ret, h_calls; static unsigned char h_x[32], h_y[32]; static void *h_data;
static int custom_ecdh_hash(unsigned char *output, const unsigned char *x32, const unsigned char *y32, void *data) { struct od { unsigned char b[32]; } nondet_od(void); struct od o = nondet_od(); h_calls++; memcpy(h_x, x32, 32); memcpy(h_y, y32, 32); h_data = data; memcpy(output, o.b, 32); h_ret = nondet_int(); return h_ret; }

void harness_ecdh(void) {
    secp256k1_context ctx; in_t in = nondet_in(); unsigned char out[32], ref[32], cat[33]; int r, custom = in.mode & 1; bvw s = be_val(in.sk, 32), px, py; int ok = (s != 0 && s < N);
    verif_ctx_init(&ctx); glue_init(); px = st_val(&in.pk.data[0]); py = st_val(&in.pk.data[32]); __CPROVER_assume(px < P && py < P && px != 0);
    __CPROVER_assume(!glue_R[0].infinity);            /* s * P is finite for valid s and finite P */
    r = secp256k1_ecdh(&ctx, out, &in.pk, in.sk, custom ? custom_ecdh_hash : NULL, in.data);
    __CPROVER_assert(glue_calls == 1 && glue_kind[0] == 3 && fe_val(&glue_b[0].x) == px && fe_val(&glue_b[0].y) == py && (bvw)sc_bv(&glue_na[0]) == (ok ? s : 1), "shared point = s * PeerPoint (dummy scalar 1 for an invalid secret)");
    if (custom) {
        __CPROVER_assert(h_calls == 1 && be_val(h_x, 32) == fe_val(&glue_R[0].x) && be_val(h_y, 32) == fe_val(&glue_R[0].y) && h_data == (void *)in.data, "hash callback receives the normalised coordinates of the shared point and the caller's data");
        __CPROVER_assert(r == (ok && h_ret != 0), "ecdh fails exactly for a zero / out-of-range secret or a failing hash callback");
    } else {
        cat[0] = 2 | (int)(fe_val(&glue_R[0].y) & 1); be32_of(cat + 1, fe_val(&glue_R[0].x)); ref_sha256(cat, 33, ref);
        __CPROVER_assert(memcmp(out, ref, 32) == 0, "default hash == SHA256((0x02 | parity(y)) || x)");
        __CPROVER_assert(r == ok, "ecdh with the default hash fails exactly for a zero / out-of-range secret");
    }
    __CPROVER_assert(r == 0 || r == 1, "boolean"); __CPROVER_assert(verif_illegal_count == 0, "no illegal callback");
    __CPROVER_assert(!(r && custom), "witness: success with custom hash"); __CPROVER_assert(!(r && !custom), "witness: success with default hash");
}

static int x_ret, x_calls; static const unsigned char *x_a, *x_b; static unsigned char x_sx[32]; static void *x_data;
static int custom_xdh_hash(unsigned char *output, const unsigned char *x32, const unsigned char *ell_a64, const unsigned char *ell_b64, void *data) { struct od2 { unsigned char b[32]; } nondet_od2(void); struct od2 o = nondet_od2(); x_calls++; memcpy(x_sx, x32, 32); x_a = ell_a64; x_b = ell_b64; x_data = data; memcpy(output, o.b, 32); x_ret = nondet_int(); return x_ret; }
void harness_xdh(void) {
    secp256k1_context ctx; in_t in = nondet_in(); unsigned char out[32], ref[32], cat[64 + 64 + 64 + 32]; int r, mode = in.mode % 3; bvw s = be_val(in.sk, 32); int ok = (s != 0 && s < N); const unsigned char *theirs = in.party ? in.a64 : in.b64; secp256k1_sha256 t;
    verif_ctx_init(&ctx); if (mode < 0) mode = -mode;
    r = secp256k1_ellswift_xdh(&ctx, out, in.a64, in.b64, in.sk, in.party, mode == 0 ? custom_xdh_hash : (mode == 1 ? secp256k1_ellswift_xdh_hash_function_bip324 : secp256k1_ellswift_xdh_hash_function_prefix), in.data);
    __CPROVER_assert(frac_calls == 1 && fe_val(&rec_u) == be_val(theirs, 32) && fe_val(&rec_t) == be_val(theirs + 32, 32), "the OTHER party's encoding (by role) is decoded: ell_a64 for party 1, ell_b64 for party 0");
    __CPROVER_assert(xonly_calls == 1 && fe_val(&rec_xn) == fe_val(&ret_xn) && fe_val(&rec_xd) == fe_val(&ret_xd) && (bvw)sc_bv(&rec_q) == (ok ? s : 1) && rec_known == 1, "x-only multiplication of the decoded x fraction by the secret (dummy 1 if invalid)");
    if (mode == 0) {
        __CPROVER_assert(x_calls == 1 && x_a == in.a64 && x_b == in.b64 && x_data == (void *)in.data && be_val(x_sx, 32) == fe_val(&ret_px) % P, "custom hasher receives (shared x, ell_a64, ell_b64, data) in that order for both roles");
        __CPROVER_assert(r == (ok && x_ret != 0), "xdh fails exactly for a zero / out-of-range secret or a failing hash callback");
    } else {
        be32_of(x_sx, fe_val(&ret_px) % P);
        if (mode == 1) { memcpy(cat, in.a64, 64); memcpy(cat + 64, in.b64, 64); memcpy(cat + 128, x_sx, 32); secp256k1_ellswift_sha256_init_bip324(&t); ref_sha256_from(t.s, 64, cat, 160, ref); }
        else { memcpy(cat, in.data, 64); memcpy(cat + 64, in.a64, 64); memcpy(cat + 128, in.b64, 64); memcpy(cat + 192, x_sx, 32); ref_sha256(cat, 224, ref); }
        __CPROVER_assert(memcmp(out, ref, 32) == 0, "BIP-324 hasher = H_tag(ell_a || ell_b || x); prefix hasher = SHA256(prefix64 || ell_a || ell_b || x)");
        __CPROVER_assert(r == ok, "xdh with a built-in hasher fails exactly for a zero / out-of-range secret");
    }
    __CPROVER_assert(verif_illegal_count == 0, "no illegal callback");
    __CPROVER_assert(!(r && in.party), "witness: party 1 success"); __CPROVER_assert(!(r && !in.party), "witness: party 0 success");
}
