/* C19 (engine W/B): Bulletproofs++ norm-argument verifier rejections, point-pair codec, generator-list parsing incl. leak freedom. */
#include "cfg_full.h"
#include "secp256k1.c"
#include "vcommon.h"
#define W_FIELD
#define W_SCALAR
#define W_ECMULT
#ifdef SMALL
#define W_KEEP_MULTI
#endif
#define W_SHA_API
#include "w_stubs.h"
void STUB_secp256k1_scalar_sqr(secp256k1_scalar *r, const secp256k1_scalar *a) { (void)a; *r = verif_sc(); }
static int multi_calls, multi_ret[2];
#define N verif_N()

#ifdef EARLY
/* every size combination the statement rejects, for ALL size_t values: nothing is read or allocated (1-byte proof buffer, scratch untouched) */
typedef struct { size_t g_len, c_len, proof_len, gn; secp256k1_scalar rho; secp256k1_ge commit; } e_in_t; e_in_t nondet_e_in(void);
void harness_verify_sizes(void) {
    secp256k1_context ctx; e_in_t in = nondet_e_in(); unsigned char proof[1]; secp256k1_sha256 tr; secp256k1_bppp_generators gv; secp256k1_scalar c[1]; int r; size_t lg, lh, rounds;
    struct scr { secp256k1_scratch s; } nondet_scr(void); secp256k1_scratch scratch = nondet_scr().s, s0; s0 = scratch;
    verif_ctx_init(&ctx); gv.n = in.gn; gv.gens = NULL;
    if (in.g_len != 0 && in.c_len != 0) { lg = 63 - __builtin_clzll(in.g_len); lh = 63 - __builtin_clzll(in.c_len); rounds = lg > lh ? lg : lh;
        __CPROVER_assume(in.gn != in.g_len + in.c_len || in.proof_len != 65 * rounds + 64 || (in.g_len & (in.g_len - 1)) != 0 || (in.c_len & (in.c_len - 1)) != 0); }
    r = secp256k1_bppp_rangeproof_norm_product_verify(&ctx, &scratch, proof, in.proof_len, &tr, &in.rho, &gv, in.g_len, c, in.c_len, &in.commit);
    __CPROVER_assert(r == 0, "zero lengths, generator-count mismatch, wrong proof length (shorter OR longer) and non-power-of-two sizes are rejected");
    __CPROVER_assert(memcmp(&scratch, &s0, sizeof(s0)) == 0 && verif_error_count == 0, "rejected before touching the scratch space");
    __CPROVER_assert(!(in.g_len == 4 && in.c_len == 2 && in.gn == 6 && in.proof_len == 65 * 2 + 64 + 1), "witness: one trailing byte");
}
#endif

#ifdef SMALL
/* sizes assigned (g_len = GL, c_len = CL): scalar / rho checks, insufficient scratch fails closed with the checkpoint restored */
#ifndef GL
#define GL 1
#define CL 1
#endif
#define LOG2(x) ((x) >= 4 ? 2 : ((x) >= 2 ? 1 : 0))
#define ROUNDS (LOG2(GL) > LOG2(CL) ? LOG2(GL) : LOG2(CL))
#define PL (65 * ROUNDS + 64)
int STUB_secp256k1_ecmult_multi_var(const secp256k1_callback *error_callback, secp256k1_scratch *scratch, secp256k1_gej *r, const secp256k1_scalar *inp_g_sc, secp256k1_ecmult_multi_callback cb, void *cbdata, size_t n) {
    (void)error_callback; (void)scratch; (void)inp_g_sc; (void)cb; (void)cbdata; (void)n; *r = verif_gej_any(); if (multi_calls < 2) multi_ret[multi_calls] = nondet_int() & 1; return multi_ret[multi_calls++ & 1];
}
typedef struct { unsigned char proof[PL]; secp256k1_scalar rho, c[CL]; secp256k1_ge commit, gens[GL + CL]; size_t max_size, alloc0; } s_in_t; s_in_t nondet_s_in(void);
void harness_verify_small(void) {
    secp256k1_context ctx; s_in_t in = nondet_s_in(); secp256k1_sha256 tr; secp256k1_bppp_generators gv; int r; static unsigned char arena[4096]; secp256k1_scratch scratch;
    struct trw { secp256k1_sha256 t; } nondet_trw(void);
    verif_ctx_init(&ctx); tr = nondet_trw().t; gv.n = GL + CL; gv.gens = in.gens;
    memcpy(scratch.magic, "scratch", 8); scratch.data = arena; in.alloc0 = 0;     /* empty scratch (concrete addresses); its capacity is symbolic */
    scratch.max_size = in.max_size; scratch.alloc_size = in.alloc0;
    __CPROVER_assume(in.max_size <= sizeof(arena));
    __CPROVER_assume(!secp256k1_scalar_check_overflow(&in.rho));
    { EXACT(xproof, in.proof, PL);
    r = secp256k1_bppp_rangeproof_norm_product_verify(&ctx, &scratch, xproof, PL, &tr, &in.rho, &gv, GL, in.c, CL, &in.commit); }
    __CPROVER_assert(r == 0 || r == 1, "boolean");
    if (be_val(&in.proof[65 * ROUNDS], 32) >= N || be_val(&in.proof[65 * ROUNDS + 32], 32) >= N) __CPROVER_assert(r == 0, "n or l >= group order rejected");
    if (secp256k1_scalar_is_zero(&in.rho)) __CPROVER_assert(r == 0, "zero challenge base rho rejected");
    __CPROVER_assert(scratch.alloc_size == in.alloc0, "scratch checkpoint restored on every path");
    __CPROVER_assert(verif_error_count == 0, "no error callback");
    if (r) __CPROVER_assert(multi_calls == 2 && multi_ret[0] && multi_ret[1], "accept => both multi-exponentiations succeeded");
    if (in.max_size - in.alloc0 < 32 * (ROUNDS + GL + CL)) __CPROVER_assert(r == 0, "insufficient scratch space fails closed");
    __CPROVER_assert(!r, "witness: acceptance reachable");
}
#endif

#ifdef POINTS
typedef struct { unsigned char in65[65]; int idx; } p_in_t; p_in_t nondet_p_in(void);
void harness_point_pair(void) {
    p_in_t in = nondet_p_in(); secp256k1_ge pt; int r, idx = in.idx & 1, inf;
    r = secp256k1_bppp_parse_one_of_points(&pt, in.in65, idx);
    inf = verif_allzero(&in.in65[1 + 32 * idx], 32);
    if (in.in65[0] > 3) __CPROVER_assert(r == 0, "point sign byte > 3 rejected");
    if (inf && (in.in65[0] & (2 - idx))) __CPROVER_assert(r == 0, "infinity encoding with its sign bit set rejected");
    if (r && inf) __CPROVER_assert(pt.infinity, "all-zero x decodes to infinity");
    if (r && !inf) __CPROVER_assert(!pt.infinity && be_val(&in.in65[1 + 32 * idx], 32) < verif_P(), "accepted finite point has x < p");
    __CPROVER_assert(!(r && inf), "witness: infinity accepted"); __CPROVER_assert(!(r && !inf), "witness: finite point accepted");
}
#endif

#ifdef GENS
/* generator-list parse: length rule, every rejection path frees both allocations (malloc may fail) */
#ifndef NG
#define NG 2
#endif
static int gp_fail_at = -1, gp_calls;
int STUB_secp256k1_generator_parse(const secp256k1_context *ctx, secp256k1_generator *gen, const unsigned char *input) {
    struct gw { secp256k1_generator g; } nondet_gw(void); (void)ctx; __CPROVER_assert(__CPROVER_r_ok(input, 33), "generator_parse reads inside the input");
    *gen = nondet_gw().g; return (gp_calls++ == gp_fail_at) ? 0 : 1;
}
typedef struct { unsigned char data[33 * NG + 1]; int fail_at, extra; } g_in_t; g_in_t nondet_g_in(void);
void harness_gens_parse(void) {
    secp256k1_context ctx; g_in_t in = nondet_g_in(); secp256k1_bppp_generators *g; size_t len = 33 * NG + ((in.extra & 1) ? 1 : 0);
    verif_ctx_init(&ctx); gp_fail_at = in.fail_at;
#ifdef EXACTBUF
    { unsigned char *xd = malloc(len); __CPROVER_assume(xd != NULL); memcpy(xd, in.data, len); g = secp256k1_bppp_generators_parse(&ctx, xd, len); free(xd); }
#else
    g = secp256k1_bppp_generators_parse(&ctx, in.data, len);
#endif
    if (len % 33) __CPROVER_assert(g == NULL && gp_calls == 0, "length not a multiple of 33 rejected before allocating");
    if (in.fail_at >= 0 && in.fail_at < NG) __CPROVER_assert(g == NULL, "any malformed point rejects the whole list");
    if (g != NULL) { __CPROVER_assert(g->n == NG && gp_calls == NG, "accepted list has data_len/33 generators"); secp256k1_bppp_generators_destroy(&ctx, g); __CPROVER_assert(NG < 0, "witness: accepted"); }
    __CPROVER_assert(verif_illegal_count == 0, "no illegal callback");
    /* --memory-leak-check: every path above must have released both allocations */
}
#endif
