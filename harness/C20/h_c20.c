/* C20: results depend only on arguments.
 * (1) 2-safety: each API family is executed twice on the same arguments with two INDEPENDENT ARBITRARY contexts
 *     (arbitrary blinding state, different callback data, declassify flag, a replaced-but-correct compression function)
 *     and, through goto-instrument --nondet-static, arbitrary initial contents of every mutable static-lifetime object;
 *     return values and output bytes are asserted equal and the context objects unchanged.  All multiplicative
 *     kernels are uninterpreted FUNCTIONS (w_uf.h), gn*G a function of gn only (= the blinding invariant, (2)).
 * (2) blinding invariant, one inductive step: secp256k1_ecmult_gen_blind from an arbitrary context state and seed.
 * (3) static context, allocation count, compression-function installation. */
#include "cfg_full.h"
#include "secp256k1.c"
#include "vcommon.h"
#ifndef C20_BLIND
#include "w_uf.h"
#else
static int uf_gen_calls, uf_sha_calls, uf_sha_cap;
#endif

/* a replaced but correct compression function: different code address, same function */
/* (its documented contract: "processes one or more contiguous 64-byte message blocks" -- a replacement need not handle n_blocks == 0) */
static void alt_compress(uint32_t *s, const unsigned char *blocks, size_t n_blocks) {
    __CPROVER_assert(n_blocks >= 1, "the pluggable compression function is only ever invoked with one or more blocks (its documented contract)");
    while (n_blocks--) { secp256k1_sha256_transform_impl(s, blocks); blocks += 64; }
}
static int d1, d2;
static void two_ctx(secp256k1_context *c1, secp256k1_context *c2) {
    verif_illegal_count = verif_error_count = 0; uf_gen_calls = 0; uf_sha_calls = 0; uf_sha_cap = 1 << 20;   /* statics are havocked by --nondet-static */
    verif_ctx_init(c1); verif_ctx_init(c2);
    c1->illegal_callback.data = &d1; c2->illegal_callback.data = &d2; c1->error_callback.data = &d1; c2->error_callback.data = &d2;
    c2->hash_ctx.fn_sha256_compression = alt_compress;
    c2->declassify = nondet_int() & 1;
}
static int ctx_same(const secp256k1_context *a, const secp256k1_context *b) {
    return a->ecmult_gen_ctx.built == b->ecmult_gen_ctx.built && memcmp(a->ecmult_gen_ctx.scalar_offset.d, b->ecmult_gen_ctx.scalar_offset.d, 32) == 0
        && memcmp(a->ecmult_gen_ctx.ge_offset.x.n, b->ecmult_gen_ctx.ge_offset.x.n, 40) == 0 && memcmp(a->ecmult_gen_ctx.ge_offset.y.n, b->ecmult_gen_ctx.ge_offset.y.n, 40) == 0
        && a->ecmult_gen_ctx.ge_offset.infinity == b->ecmult_gen_ctx.ge_offset.infinity && memcmp(a->ecmult_gen_ctx.proj_blind.n, b->ecmult_gen_ctx.proj_blind.n, 40) == 0
        && a->hash_ctx.fn_sha256_compression == b->hash_ctx.fn_sha256_compression && a->illegal_callback.fn == b->illegal_callback.fn && a->illegal_callback.data == b->illegal_callback.data
        && a->error_callback.fn == b->error_callback.fn && a->error_callback.data == b->error_callback.data && a->declassify == b->declassify;
}
typedef struct {
    unsigned char a32[32], b32[32], c32[32], d32[32], sig64[64], buf[80]; secp256k1_pubkey pk; secp256k1_xonly_pubkey xpk; secp256k1_keypair kp; secp256k1_ecdsa_signature sig;
    secp256k1_generator gen; secp256k1_musig_keyagg_cache cache; secp256k1_musig_session session; secp256k1_musig_secnonce sn; uint64_t v; size_t len; int f1, f2;
} in_t;
in_t nondet_in(void);
#define BEGIN secp256k1_context c1, c2, s1, s2; in_t in = nondet_in(); int r1, r2, i1, i2; two_ctx(&c1, &c2); s1 = c1; s2 = c2; uf_sha_calls = 0; uf_sha_cap = 1 << 20;
#define BETWEEN i1 = verif_illegal_count; verif_illegal_count = 0; uf_sha_calls = 0;
#define END(what) i2 = verif_illegal_count; \
    __CPROVER_assert(r1 == r2, what ": same return value under both contexts"); \
    __CPROVER_assert(i1 == i2 && verif_error_count == 0, what ": same illegal-callback count, no error callback"); \
    __CPROVER_assert(ctx_same(&c1, &s1) && ctx_same(&c2, &s2), what ": context objects unchanged (read-only API)");
#define SAMEBYTES(what, p1, p2, n) __CPROVER_assert(memcmp(p1, p2, n) == 0, what ": identical output bytes under both contexts");
#define CANON(pk) __CPROVER_assume(st_val_(&(pk).data[0]) < verif_P() && st_val_(&(pk).data[32]) < verif_P())
static bvw st_val_(const unsigned char *p) { uint64_t w[4]; bvw v = 0; int i; memcpy(w, p, 32); for (i = 3; i >= 0; i--) v = (v << 64) | w[i]; return v; }

#ifndef C20_BLIND
void harness_ecdsa_sign(void) {
    BEGIN secp256k1_ecdsa_signature o1, o2; uf_sha_cap = 24; memset(&o1, 0xA5, 64); memset(&o2, 0xA5, 64);
#ifdef NDATA_NULL
    in.f1 = NDATA_NULL;
#endif
      /* one RFC 6979 attempt costs 22 (24 with extra data) compressions; a second attempt needs 34 more: bound = first nonce attempt */
    r1 = secp256k1_ecdsa_sign(&c1, &o1, in.a32, in.b32, NULL, in.f1 ? NULL : in.c32); BETWEEN
    r2 = secp256k1_ecdsa_sign(&c2, &o2, in.a32, in.b32, NULL, in.f1 ? NULL : in.c32); END("ecdsa_sign")
    SAMEBYTES("ecdsa_sign", &o1, &o2, 64) __CPROVER_assert(!r1, "witness: signing succeeds");
}
void harness_ecdsa_verify(void) {
    BEGIN CANON(in.pk);
    r1 = secp256k1_ecdsa_verify(&c1, &in.sig, in.a32, &in.pk); BETWEEN
    r2 = secp256k1_ecdsa_verify(&c2, &in.sig, in.a32, &in.pk); END("ecdsa_verify")
    __CPROVER_assert(!r1, "witness: verification succeeds");
}
void harness_schnorr_sign(void) {
    BEGIN unsigned char o1[64], o2[64]; CANON(*(secp256k1_pubkey *)&in.kp.data[32]); memset(o1, 0xA5, 64); memset(o2, 0xA5, 64);
    r1 = secp256k1_schnorrsig_sign32(&c1, o1, in.a32, &in.kp, in.f1 ? NULL : in.c32); BETWEEN
    r2 = secp256k1_schnorrsig_sign32(&c2, o2, in.a32, &in.kp, in.f1 ? NULL : in.c32); END("schnorrsig_sign32")
    SAMEBYTES("schnorrsig_sign32", o1, o2, 64) __CPROVER_assert(!r1, "witness: signing succeeds");
}
void harness_schnorr_verify(void) {
    BEGIN CANON(in.xpk);
    r1 = secp256k1_schnorrsig_verify(&c1, in.sig64, in.a32, 32, &in.xpk); BETWEEN
    r2 = secp256k1_schnorrsig_verify(&c2, in.sig64, in.a32, 32, &in.xpk); END("schnorrsig_verify")
    __CPROVER_assert(!r1, "witness: verification succeeds");
}
void harness_keygen(void) {
    BEGIN secp256k1_pubkey o1, o2; secp256k1_keypair k1, k2; int ra, rb; memset(&o1, 0xA5, 64); memset(&o2, 0xA5, 64); memset(&k1, 0xA5, 96); memset(&k2, 0xA5, 96);
    r1 = secp256k1_ec_pubkey_create(&c1, &o1, in.a32); ra = secp256k1_keypair_create(&c1, &k1, in.a32); BETWEEN
    r2 = secp256k1_ec_pubkey_create(&c2, &o2, in.a32); rb = secp256k1_keypair_create(&c2, &k2, in.a32); END("pubkey_create/keypair_create")
    SAMEBYTES("pubkey_create", &o1, &o2, 64) SAMEBYTES("keypair_create", &k1, &k2, 96) __CPROVER_assert(ra == rb, "keypair_create: same return value");
    __CPROVER_assert(!r1, "witness: key generation succeeds");
}
void harness_tweaks(void) {
    BEGIN secp256k1_pubkey p1 = in.pk, p2 = in.pk, q1 = in.pk, q2 = in.pk; unsigned char k1[32], k2[32]; int ra, rb, rc, rd; CANON(in.pk);
    memcpy(k1, in.a32, 32); memcpy(k2, in.a32, 32);
    r1 = secp256k1_ec_pubkey_tweak_add(&c1, &p1, in.b32); ra = secp256k1_ec_pubkey_tweak_mul(&c1, &q1, in.b32); rc = secp256k1_ec_seckey_tweak_add(&c1, k1, in.b32); BETWEEN
    r2 = secp256k1_ec_pubkey_tweak_add(&c2, &p2, in.b32); rb = secp256k1_ec_pubkey_tweak_mul(&c2, &q2, in.b32); rd = secp256k1_ec_seckey_tweak_add(&c2, k2, in.b32); END("tweaks")
    SAMEBYTES("pubkey_tweak_add", &p1, &p2, 64) SAMEBYTES("pubkey_tweak_mul", &q1, &q2, 64) SAMEBYTES("seckey_tweak_add", k1, k2, 32)
    __CPROVER_assert(ra == rb && rc == rd, "tweaks: same return values"); __CPROVER_assert(!r1, "witness: tweak succeeds");
}
void harness_ecdh(void) {
    BEGIN unsigned char o1[32], o2[32]; CANON(in.pk); memset(o1, 0xA5, 32); memset(o2, 0xA5, 32);
    r1 = secp256k1_ecdh(&c1, o1, &in.pk, in.a32, NULL, NULL); BETWEEN
    r2 = secp256k1_ecdh(&c2, o2, &in.pk, in.a32, NULL, NULL); END("ecdh")
    SAMEBYTES("ecdh", o1, o2, 32) __CPROVER_assert(!r1, "witness: ecdh succeeds");
}
void harness_der_serialize(void) {
    BEGIN unsigned char o1[80], o2[80]; size_t l1 = in.len, l2 = in.len; __CPROVER_assume(in.len <= 80); memset(o1, 0xA5, 80); memset(o2, 0xA5, 80);
    r1 = secp256k1_ecdsa_signature_serialize_der(&c1, o1, &l1, &in.sig); BETWEEN
    r2 = secp256k1_ecdsa_signature_serialize_der(&c2, o2, &l2, &in.sig); END("serialize_der")
    __CPROVER_assert(l1 == l2, "serialize_der: same reported length"); SAMEBYTES("serialize_der", o1, o2, 80) __CPROVER_assert(!r1, "witness: DER serialization succeeds");
}
#ifndef DERLEN
#define DERLEN 24
#endif
void harness_der_parse(void) {
    BEGIN secp256k1_ecdsa_signature g1, g2; unsigned char buf[DERLEN]; size_t len = nondet_size_t(); __CPROVER_assume(len <= DERLEN); memset(&g1, 0xA5, 64); memset(&g2, 0xA5, 64); (void)in;
    r1 = secp256k1_ecdsa_signature_parse_der(&c1, &g1, buf, len); BETWEEN
    r2 = secp256k1_ecdsa_signature_parse_der(&c2, &g2, buf, len); END("parse_der")
    SAMEBYTES("parse_der", &g1, &g2, 64) __CPROVER_assert(!r1, "witness: DER parse succeeds");
}
void harness_pubkey_serialize(void) {
    BEGIN unsigned char e1[65], e2[65]; size_t m1 = in.len, m2 = in.len; CANON(in.pk); memset(e1, 0xA5, 65); memset(e2, 0xA5, 65);
    __CPROVER_assume(in.len == 33 || in.len == 65);
    r1 = secp256k1_ec_pubkey_serialize(&c1, e1, &m1, &in.pk, in.f1 ? SECP256K1_EC_COMPRESSED : SECP256K1_EC_UNCOMPRESSED); BETWEEN
    r2 = secp256k1_ec_pubkey_serialize(&c2, e2, &m2, &in.pk, in.f1 ? SECP256K1_EC_COMPRESSED : SECP256K1_EC_UNCOMPRESSED); END("pubkey_serialize")
    __CPROVER_assert(m1 == m2, "pubkey_serialize: same length"); SAMEBYTES("pubkey_serialize", e1, e2, 65) __CPROVER_assert(!r1, "witness: serialization succeeds");
}
void harness_pedersen(void) {
    BEGIN secp256k1_pedersen_commitment o1, o2; CANON(in.gen); memset(&o1, 0xA5, 64); memset(&o2, 0xA5, 64);   /* the object has 31 unused trailing bytes: compare what the call writes */
    r1 = secp256k1_pedersen_commit(&c1, &o1, in.a32, in.v, &in.gen); BETWEEN
    r2 = secp256k1_pedersen_commit(&c2, &o2, in.a32, in.v, &in.gen); END("pedersen_commit")
    SAMEBYTES("pedersen_commit", &o1, &o2, 64) __CPROVER_assert(!r1, "witness: commit succeeds");
}
void harness_musig_sign(void) {
    BEGIN secp256k1_musig_partial_sig o1, o2; secp256k1_musig_secnonce n1 = in.sn, n2 = in.sn; CANON(*(secp256k1_pubkey *)&in.kp.data[32]); CANON(*(secp256k1_pubkey *)&in.cache.data[4]); CANON(*(secp256k1_pubkey *)&in.cache.data[68]); CANON(*(secp256k1_pubkey *)&in.sn.data[68]);
    memset(&o1, 0, sizeof(o1)); memset(&o2, 0, sizeof(o2));
    r1 = secp256k1_musig_partial_sign(&c1, &o1, &n1, &in.kp, &in.cache, &in.session); BETWEEN
    r2 = secp256k1_musig_partial_sign(&c2, &o2, &n2, &in.kp, &in.cache, &in.session); END("musig_partial_sign")
    SAMEBYTES("musig_partial_sign", &o1, &o2, 36) __CPROVER_assert(!r1, "witness: partial signing succeeds");
}
/* static context (and byte copies of it): same result or exactly one illegal callback and failure */
void harness_static_ctx(void) {
    secp256k1_context c1, c2; in_t in = nondet_in(); secp256k1_pubkey o1, o2; secp256k1_ecdsa_signature g1, g2; unsigned char sg1[64], sg2[64]; int r1, r2, i2; CANON(in.pk);
    two_ctx(&c1, &c2); c2.ecmult_gen_ctx.built = 0;       /* c2: a copy of the static context with counting callbacks */
    r1 = secp256k1_ecdsa_verify(&c1, &in.sig, in.a32, &in.pk); __CPROVER_assume(verif_illegal_count == 0);
    r2 = secp256k1_ecdsa_verify(&c2, &in.sig, in.a32, &in.pk);
    __CPROVER_assert(r1 == r2 && verif_illegal_count == 0, "ecdsa_verify accepts the static context and gives the same result");
    r1 = secp256k1_ec_pubkey_create(&c1, &o1, in.b32); r2 = secp256k1_ec_pubkey_create(&c2, &o2, in.b32); i2 = verif_illegal_count;
    __CPROVER_assert(r2 == 0 && i2 == 1 && verif_allzero(&o2, 64), "pubkey_create on the static context: one illegal callback, failure, zero output");
    verif_illegal_count = 0; r2 = secp256k1_ecdsa_sign(&c2, &g2, in.a32, in.b32, NULL, NULL);
    __CPROVER_assert(r2 == 0 && verif_illegal_count == 1, "ecdsa_sign on the static context: one illegal callback, failure");
    verif_illegal_count = 0; r2 = secp256k1_schnorrsig_sign32(&c2, sg2, in.a32, &in.kp, NULL);
    __CPROVER_assert(r2 == 0 && verif_illegal_count == 1, "schnorrsig_sign32 on the static context: one illegal callback, failure");
    { secp256k1_xonly_pubkey xp[1]; unsigned char agg[64]; secp256k1_pedersen_commitment pc; secp256k1_keypair kp2;
      memcpy(&xp[0], &in.xpk, sizeof(xp[0])); memcpy(agg, in.sig64, 64);
      { size_t na = (size_t)(in.f2 & 1);          /* also the empty aggregate (n = 0, 32 bytes): the context requirement does not depend on n */
      verif_illegal_count = 0; r2 = secp256k1_schnorrsig_aggverify(&c2, xp, in.a32, na, agg, 32 * (na + 1)); }
      __CPROVER_assert(r2 == 0 && verif_illegal_count == 1, "schnorrsig_aggverify on the static context: one illegal callback, failure");
      verif_illegal_count = 0; r2 = secp256k1_pedersen_commit(&c2, &pc, in.b32, in.v, &in.gen);
      __CPROVER_assert(r2 == 0 && verif_illegal_count == 1, "pedersen_commit on the static context: one illegal callback, failure");
      verif_illegal_count = 0; r2 = secp256k1_keypair_create(&c2, &kp2, in.b32);
      __CPROVER_assert(r2 == 0 && verif_illegal_count == 1, "keypair_create on the static context: one illegal callback, failure"); }
    verif_illegal_count = 0; r2 = secp256k1_context_randomize(&c2, in.c32);
    __CPROVER_assert(r2 == 0 && verif_illegal_count == 1, "context_randomize on the static context: one illegal callback, failure");
    (void)g1; (void)sg1; __CPROVER_assert(!r1, "witness: proper context creates keys");
}
#endif

#ifdef C20_LIFE
/* ---- (3) context life cycle: create (malloc) / preallocated create / clone / preallocated clone / randomize / destroy ---- */
static int malloc_calls;
void *STUB_checked_malloc(const secp256k1_callback *cb, size_t size) { (void)cb; malloc_calls++; return malloc(size); }
int STUB_secp256k1_selftest_passes(void) { return 1; }     /* the self test hashes a fixed vector with the real compression function: concrete, not a solver question */
void STUB_secp256k1_ecmult_gen_scalar_diff(secp256k1_scalar *diff) { static const secp256k1_scalar d = SECP256K1_SCALAR_CONST(0, 0, 0, 0, 0, 0, 0, 7); *diff = d; }   /* an opaque public constant */
static int gen_same(const secp256k1_ecmult_gen_context *a, const secp256k1_ecmult_gen_context *b) {
    return a->built == b->built && memcmp(a->scalar_offset.d, b->scalar_offset.d, 32) == 0 && memcmp(a->ge_offset.x.n, b->ge_offset.x.n, 40) == 0 && memcmp(a->ge_offset.y.n, b->ge_offset.y.n, 40) == 0
        && a->ge_offset.infinity == b->ge_offset.infinity && memcmp(a->proj_blind.n, b->proj_blind.n, 40) == 0;
}
void harness_lifecycle(void) {
    in_t in = nondet_in(); secp256k1_context *c, *cl, *pc, *pcl; static secp256k1_context mem1, mem2; int r;
    malloc_calls = 0; uf_gen_calls = 0; uf_sha_calls = 0; uf_sha_cap = 1 << 20; verif_illegal_count = verif_error_count = 0;
    c = secp256k1_context_create(SECP256K1_CONTEXT_NONE);
    __CPROVER_assert(c != NULL && malloc_calls == 1, "context_create performs exactly one allocation");
    __CPROVER_assert(c->ecmult_gen_ctx.built == 1 && c->declassify == 0 && c->hash_ctx.fn_sha256_compression == secp256k1_sha256_transform, "created context: built, default compression, not declassifying");
    pc = secp256k1_context_preallocated_create(&mem1, SECP256K1_CONTEXT_NONE);
    __CPROVER_assert(pc == &mem1 && malloc_calls == 1 && gen_same(&pc->ecmult_gen_ctx, &c->ecmult_gen_ctx) && pc->hash_ctx.fn_sha256_compression == c->hash_ctx.fn_sha256_compression, "preallocated_create yields the same state in caller memory, without allocating");
    r = secp256k1_context_randomize(c, in.f1 ? NULL : in.a32);
    __CPROVER_assert(r == 1 && c->ecmult_gen_ctx.built == 1, "randomize succeeds on a proper context");
    cl = secp256k1_context_clone(c);
    __CPROVER_assert(cl != NULL && cl != c && malloc_calls == 2 && gen_same(&cl->ecmult_gen_ctx, &c->ecmult_gen_ctx) && cl->hash_ctx.fn_sha256_compression == c->hash_ctx.fn_sha256_compression
                     && cl->illegal_callback.fn == c->illegal_callback.fn && cl->error_callback.fn == c->error_callback.fn && cl->declassify == c->declassify, "clone: one allocation, identical state");
    pcl = secp256k1_context_preallocated_clone(c, &mem2);
    __CPROVER_assert(pcl == &mem2 && malloc_calls == 2 && gen_same(&pcl->ecmult_gen_ctx, &c->ecmult_gen_ctx), "preallocated_clone: identical state, no allocation");
    r = secp256k1_context_randomize(cl, NULL);
    __CPROVER_assert(r == 1 && gen_same(&cl->ecmult_gen_ctx, &pc->ecmult_gen_ctx), "randomize(NULL) resets the blinding to the state of a freshly created context");
    secp256k1_context_destroy(c); secp256k1_context_destroy(cl); secp256k1_context_preallocated_destroy(pc); secp256k1_context_preallocated_destroy(pcl);
    __CPROVER_assert(verif_illegal_count == 0 && verif_error_count == 0, "no callbacks");      /* --memory-leak-check: both allocations released */
    __CPROVER_assert(in.f1, "witness: seeded randomize"); __CPROVER_assert(!in.f1, "witness: NULL-seed randomize");
}
#endif

#ifdef C20_SETSHA
/* ---- (4) installing / resetting the compression function ---- */
static int st_ret, st_calls; static secp256k1_sha256_compression_function st_fn;
int STUB_secp256k1_selftest_sha256(secp256k1_sha256_compression_function fn_compression) { st_calls++; st_fn = fn_compression; st_ret = nondet_int() & 1; return st_ret; }   /* the self test's verdict on the candidate: arbitrary */
void harness_set_compression(void) {
    secp256k1_context c, s0; in_t in = nondet_in(); secp256k1_sha256_compression_function cand = (in.f1 & 1) ? alt_compress : NULL;
    verif_illegal_count = verif_error_count = 0; uf_gen_calls = 0; uf_sha_calls = 0; uf_sha_cap = 1 << 20;
    verif_ctx_init(&c); c.ecmult_gen_ctx.built = (in.f2 & 1); c.hash_ctx.fn_sha256_compression = (in.f2 & 2) ? alt_compress : secp256k1_sha256_transform; s0 = c;
    secp256k1_context_set_sha256_compression(&c, cand);
    if (!s0.ecmult_gen_ctx.built) __CPROVER_assert(verif_illegal_count == 1 && ctx_same(&c, &s0), "static-context copy: illegal callback, context unchanged");
    else if (cand == NULL) __CPROVER_assert(verif_illegal_count == 0 && c.hash_ctx.fn_sha256_compression == secp256k1_sha256_transform && st_calls == 0, "NULL resets to the built-in compression function");
    else if (!st_ret) __CPROVER_assert(st_calls == 1 && st_fn == cand && verif_illegal_count == 1 && ctx_same(&c, &s0), "a candidate that fails the self test is refused through the illegal callback, context unchanged");
    else __CPROVER_assert(st_calls == 1 && st_fn == cand && verif_illegal_count == 0 && c.hash_ctx.fn_sha256_compression == cand, "a candidate that passes the self test is installed");
    { secp256k1_context t = c; t.hash_ctx = s0.hash_ctx; __CPROVER_assert(ctx_same(&t, &s0), "nothing but the compression function pointer changes"); }
    __CPROVER_assert(!(s0.ecmult_gen_ctx.built && cand && st_ret), "witness: installation succeeds");
}
#endif

#ifdef C20_BLIND
/* ---- (2) blinding invariant: one inductive step of secp256k1_ecmult_gen_blind ---- */
#define W_FIELD_TRANSPARENT
#define W_SHA_HAVOC
#include "w_stubs.h"
static secp256k1_ecmult_gen_context at_call; static secp256k1_scalar call_gn; static secp256k1_gej call_R; static int gen_calls;
void STUB_secp256k1_ecmult_gen(const secp256k1_ecmult_gen_context *ctx, secp256k1_gej *r, const secp256k1_scalar *gn) { gen_calls++; at_call = *ctx; call_gn = *gn; *r = call_R; }
static secp256k1_scalar the_diff;
void STUB_secp256k1_ecmult_gen_scalar_diff(secp256k1_scalar *diff) { *diff = the_diff; }
void harness_blind_step(void) {
    secp256k1_ecmult_gen_context g, pre; secp256k1_hash_ctx hc; struct gw { secp256k1_ecmult_gen_context g; } nondet_gctx(void); in_t in = nondet_in(); secp256k1_scalar diff; bvw dv, two258;
    g = nondet_gctx().g; pre = g; hc.fn_sha256_compression = secp256k1_sha256_transform;
    call_R.x = verif_fe_m1(); call_R.y = verif_fe_m1(); call_R.z.n[0] = 1; call_R.z.n[1] = call_R.z.n[2] = call_R.z.n[3] = call_R.z.n[4] = 0; call_R.infinity = 0;   /* b*G, b != 0, as ecmult_gen returns it under the invariant */
    the_diff = verif_sc(); diff = the_diff; dv = sc_val(&diff); (void)two258;   /* the comb offset constant is opaque here: the invariant is relative to whatever scalar_diff returns (ecmult_gen calls the same function) */
    secp256k1_ecmult_gen_blind(&g, &hc, in.f1 ? NULL : in.a32);
    if (in.f1) {
        __CPROVER_assert(gen_calls == 0 && fe_val(&g.ge_offset.x) == fe_val(&secp256k1_ge_const_g.x) && fe_cval(&g.ge_offset.y) == verif_P() - fe_val(&secp256k1_ge_const_g.y) && !g.ge_offset.infinity, "reset: ge_offset == -G  (b = -1)");
        __CPROVER_assert(sc_val(&g.scalar_offset) == addN(dv, 1), "reset: scalar_offset == diff - b == diff + 1");
        __CPROVER_assert(fe_val(&g.proj_blind) == 1, "reset: projective blinding 1");
    } else {
        bvw b = sc_val(&call_gn);
        __CPROVER_assert(gen_calls == 1 && b != 0 && b < verif_N(), "seeded: ge_offset is computed as b*G for one non-zero b");
        __CPROVER_assert(memcmp(at_call.scalar_offset.d, pre.scalar_offset.d, 32) == 0 && memcmp(&at_call.ge_offset.x, &pre.ge_offset.x, 40) == 0 && memcmp(&at_call.ge_offset.y, &pre.ge_offset.y, 40) == 0 && at_call.ge_offset.infinity == pre.ge_offset.infinity,
                         "seeded: b*G is computed under the PREVIOUS (scalar_offset, ge_offset) pair (so the previous invariant applies)");
        __CPROVER_assert(fe_cval(&at_call.proj_blind) != 0, "seeded: projective blinding factor in use is non-zero");
        __CPROVER_assert(fe_val(&g.ge_offset.x) == fe_val(&call_R.x) && fe_val(&g.ge_offset.y) == fe_val(&call_R.y) && !g.ge_offset.infinity, "seeded: new ge_offset == b*G");
        __CPROVER_assert(sc_val(&g.scalar_offset) == addN(dv, negN(b)), "seeded: new scalar_offset == diff - b");
        __CPROVER_assert(fe_cval(&g.proj_blind) != 0, "seeded: new projective blinding factor non-zero");
    }
    __CPROVER_assert(g.built == pre.built, "built flag untouched");
    __CPROVER_assert(in.f1, "witness: seeded path"); __CPROVER_assert(!in.f1, "witness: reset path");
}
#endif
