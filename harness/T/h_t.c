/* Engine T harnesses: completeness statements (honest output verifies) as algebra over a cyclic group of order 13 with an arbitrary hash. */
#define EXHAUSTIVE_TEST_ORDER 13
#define ENABLE_MODULE_EXTRAKEYS 1
#define ENABLE_MODULE_SCHNORRSIG 1
#define ENABLE_MODULE_RECOVERY 1
#ifdef T_MUSIG
#define ENABLE_MODULE_MUSIG 1
#endif
#define ECMULT_WINDOW_SIZE 15
#define COMB_BLOCKS 43
#define COMB_TEETH 6
#include "secp256k1.c"
#include "t_model.h"

#ifdef T_SCHNORR
/* keypair_create -> schnorrsig_sign32 -> keypair_xonly_pub -> schnorrsig_verify, for all 96 input bytes (every 32-byte re-encoding of every key) */
void harness_schnorr(void) {
    secp256k1_context ctx; unsigned char sk[32], msg[32], aux[32], sig[64]; secp256k1_keypair kp; secp256k1_xonly_pubkey xpk; int par;
    t_ctx(&ctx);
    if (secp256k1_keypair_create(&ctx, &kp, sk)) {
        int ok = secp256k1_schnorrsig_sign32(&ctx, sig, msg, &kp, aux);
        if (ok) {
            __CPROVER_assert(secp256k1_keypair_xonly_pub(&ctx, &xpk, &par, &kp), "x-only key of a valid keypair");
            __CPROVER_assert(secp256k1_schnorrsig_verify(&ctx, sig, msg, 32, &xpk), "BIP-340: a signature the library creates verifies under the keypair's x-only key");
            __CPROVER_assert(0, "witness: signing succeeds");
        }
        __CPROVER_assert(t_illegal == 0 && t_error == 0, "no callbacks");
    }
}
#endif
#ifdef T_ECDSA
/* an arbitrary nonce function that may fail; at most 3 attempts */
static int nonce_any(unsigned char *nonce32, const unsigned char *msg32, const unsigned char *key32, const unsigned char *algo16, void *data, unsigned int counter) {
    int i; (void)msg32; (void)key32; (void)algo16; (void)data; __CPROVER_assume(counter < 3); for (i = 0; i < 32; i++) nonce32[i] = nondet_uchar(); return nondet_int() & 1;
}
void harness_ecdsa(void) {
    secp256k1_context ctx; unsigned char sk[32], msg[32], z[64] = {0}; secp256k1_ecdsa_signature sig; secp256k1_pubkey pk; int i, ok;
    t_ctx(&ctx);
    for (i = 0; i < 30; i++) sk[i] = 0;            /* bound: two symbolic low key bytes (65536 encodings incl. every value >= 13) */
    if (secp256k1_ec_pubkey_create(&ctx, &pk, sk)) {
        ok = secp256k1_ecdsa_sign(&ctx, &sig, msg, sk, nonce_any, NULL);
        if (ok) __CPROVER_assert(secp256k1_ecdsa_verify(&ctx, &sig, msg, &pk), "ECDSA: a signature the library creates verifies under pubkey_create(key)");
        else __CPROVER_assert(memcmp(&sig, z, 64) == 0, "failed signing leaves an all-zero signature");
        /* (public-key recovery has no tiny-group analogue: r is x mod 13, not an x coordinate; its algebra is C01's recover_realwidth query) */
        if (ok) __CPROVER_assert(0, "witness: signing succeeds");
        __CPROVER_assert(t_illegal == 0 && t_error == 0, "no callbacks");
    }
}
#endif
#ifdef T_MUSIG
/* signing-phase lemma: from an ARBITRARY valid key-aggregation cache, an ARBITRARY session and any live secret nonce bound to the signer's key */
void harness_musig_signphase(void) {
    secp256k1_context ctx; unsigned char sk[32]; int i; secp256k1_keypair kp; secp256k1_pubkey pk; secp256k1_ge pkge;
    secp256k1_musig_keyagg_cache cache; secp256k1_keyagg_cache_internal ci; secp256k1_musig_session sess; secp256k1_musig_session_internal si;
    secp256k1_musig_secnonce sn; secp256k1_musig_pubnonce pn; secp256k1_musig_partial_sig ps; secp256k1_scalar k[2]; secp256k1_ge npts[2]; secp256k1_gej nj; unsigned a, b2;
    t_ctx(&ctx);
    for (i = 0; i < 31; i++) sk[i] = 0;
    __CPROVER_assume(secp256k1_keypair_create(&ctx, &kp, sk)); secp256k1_keypair_pub(&ctx, &pk, &kp); secp256k1_pubkey_load(&ctx, &pkge, &pk);
    a = nondet_unsigned() % TN; b2 = nondet_unsigned() % TN; __CPROVER_assume(a != 0);
    memset(&ci, 0, sizeof(ci)); tg_set(&ci.pk.x, &ci.pk.y, &ci.pk.infinity, a); tg_set(&ci.second_pk.x, &ci.second_pk.y, &ci.second_pk.infinity, b2);
    for (i = 0; i < 32; i++) ci.pks_hash[i] = nondet_uchar();
    ci.parity_acc = nondet_int() & 1; ci.tweak = nondet_unsigned() % TN; secp256k1_keyagg_cache_save(&cache, &ci);
    si.fin_nonce_parity = nondet_int() & 1; si.noncecoef = nondet_unsigned() % TN; si.challenge = nondet_unsigned() % TN; si.s_part = nondet_unsigned() % TN; for (i = 0; i < 32; i++) si.fin_nonce[i] = nondet_uchar(); secp256k1_musig_session_save(&sess, &si);
    k[0] = nondet_unsigned() % TN; k[1] = nondet_unsigned() % TN; __CPROVER_assume(k[0] != 0 && k[1] != 0);
    secp256k1_musig_secnonce_save(&sn, k, &pkge);
    for (i = 0; i < 2; i++) { secp256k1_ecmult_gen(&ctx.ecmult_gen_ctx, &nj, &k[i]); secp256k1_ge_set_gej(&npts[i], &nj); }
    secp256k1_musig_pubnonce_save(&pn, npts);
    __CPROVER_assert(secp256k1_musig_partial_sign(&ctx, &ps, &sn, &kp, &cache, &sess), "partial_sign succeeds from any valid state");
    __CPROVER_assert(secp256k1_musig_partial_sig_verify(&ctx, &ps, &pn, &pk, &cache, &sess), "the signer's own partial signature verifies, in any (even adversarially chosen) session");
    __CPROVER_assert(t_illegal == 0 && t_error == 0, "no callbacks");
    __CPROVER_assert(0, "witness: end reached");
}
#endif
