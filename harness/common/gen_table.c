/* Engine T table generator (compiled with gcc against the REAL library code of the tree under test, no stubs; run at check time).
 * Emits the affine coordinates of k*G, k = 0..ORDER-1, of the EXHAUSTIVE_TEST_ORDER subgroup the repository's own exhaustive tests use,
 * and cross-validates the table against the real secp256k1_ecmult / ecmult_gen / gej_add_var on all pairs (the model the stubs
 * implement by index arithmetic), exiting non-zero on any mismatch. */
#include <stdio.h>
#define ENABLE_MODULE_EXTRAKEYS 1
#define ENABLE_MODULE_SCHNORRSIG 1
/* table parameters as in the repository's exhaustive-test build: small tables, recomputed for the subgroup generator below */
#ifndef ECMULT_WINDOW_SIZE
#define ECMULT_WINDOW_SIZE 2
#define COMB_BLOCKS 2
#define COMB_TEETH 5
#endif
#include "secp256k1.c"
#include "ecmult_compute_table_impl.h"
#include "ecmult_gen_compute_table_impl.h"
#define N EXHAUSTIVE_TEST_ORDER
static secp256k1_ge T[N];
static int same(const secp256k1_gej *j, int k) { secp256k1_ge g; secp256k1_gej c = *j; if (k == 0) return c.infinity; if (c.infinity) return 0; secp256k1_ge_set_gej(&g, &c); secp256k1_fe_normalize(&g.x); secp256k1_fe_normalize(&g.y); return secp256k1_fe_equal(&g.x, &T[k].x) && secp256k1_fe_equal(&g.y, &T[k].y); }
int main(void) {
    secp256k1_gej gj, r, aj, bj; int k, a, b, i; secp256k1_context *ctx;
    /* as tests_exhaustive.c does: recreate the ecmult / ecmult_gen tables for the subgroup generator selected by EXHAUSTIVE_TEST_ORDER */
    secp256k1_ecmult_gen_compute_table(&secp256k1_ecmult_gen_prec_table[0][0], &secp256k1_ge_const_g, COMB_BLOCKS, COMB_TEETH, COMB_SPACING);
    secp256k1_ecmult_compute_two_tables(secp256k1_pre_g, secp256k1_pre_g_128, WINDOW_G, &secp256k1_ge_const_g);
    ctx = secp256k1_context_create(SECP256K1_CONTEXT_NONE);
    secp256k1_gej_set_infinity(&gj);
    for (k = 0; k < N; k++) { if (k) { secp256k1_ge_set_gej(&T[k], &gj); secp256k1_fe_normalize(&T[k].x); secp256k1_fe_normalize(&T[k].y); } secp256k1_gej_add_ge(&gj, &gj, &secp256k1_ge_const_g); }
    if (!gj.infinity) { fprintf(stderr, "order mismatch\n"); return 1; }
    for (a = 0; a < N; a++) {
        secp256k1_scalar sa; secp256k1_scalar_set_int(&sa, a);
        secp256k1_ecmult_gen(&ctx->ecmult_gen_ctx, &r, &sa); if (!same(&r, a)) { fprintf(stderr, "ecmult_gen mismatch %d\n", a); return 1; }
        if (a) secp256k1_gej_set_ge(&aj, &T[a]); else secp256k1_gej_set_infinity(&aj);
        for (b = 0; b < N; b++) {
            secp256k1_scalar sb; secp256k1_scalar_set_int(&sb, b);
            if (b) secp256k1_gej_set_ge(&bj, &T[b]); else secp256k1_gej_set_infinity(&bj);
            secp256k1_gej_add_var(&r, &aj, &bj, NULL); if (!same(&r, (a + b) % N)) { fprintf(stderr, "add mismatch %d %d\n", a, b); return 1; }
            for (i = 0; i < N; i += 5) { secp256k1_scalar si; secp256k1_scalar_set_int(&si, i); secp256k1_ecmult(&r, &aj, &sb, &si); if (!same(&r, (a * b + i) % N)) { fprintf(stderr, "ecmult mismatch %d %d %d\n", a, b, i); return 1; } }
        }
    }
    printf("/* generated at check time from the real code, EXHAUSTIVE_TEST_ORDER=%d; validated against ecmult, ecmult_gen, gej_add_var on all pairs */\n", N);
    printf("static const uint64_t TG_X[%d][5] = {\n {0,0,0,0,0},\n", N);
    for (k = 1; k < N; k++) printf(" {0x%llxULL,0x%llxULL,0x%llxULL,0x%llxULL,0x%llxULL},\n", (unsigned long long)T[k].x.n[0], (unsigned long long)T[k].x.n[1], (unsigned long long)T[k].x.n[2], (unsigned long long)T[k].x.n[3], (unsigned long long)T[k].x.n[4]);
    printf("};\nstatic const uint64_t TG_Y[%d][5] = {\n {0,0,0,0,0},\n", N);
    for (k = 1; k < N; k++) printf(" {0x%llxULL,0x%llxULL,0x%llxULL,0x%llxULL,0x%llxULL},\n", (unsigned long long)T[k].y.n[0], (unsigned long long)T[k].y.n[1], (unsigned long long)T[k].y.n[2], (unsigned long long)T[k].y.n[3], (unsigned long long)T[k].y.n[4]);
    printf("};\n");
    secp256k1_context_destroy(ctx);
    return 0;
}
