/* Independent reference for the SHA-256 message schedule AROUND the compression function (FIPS 180-4 padding over an
 * explicit byte array).  The compression function is the same uninterpreted function the library code is run with
 * (W_SHA_UF / T), so equality of digests == the library fed the compression function exactly the reference blocks. */
#ifndef VERIF_REF_SHA_H
#define VERIF_REF_SHA_H
#ifndef REF_SHA_MAX
#define REF_SHA_MAX 512
#endif
static const uint32_t REF_SHA_IV[8] = {0x6a09e667ul, 0xbb67ae85ul, 0x3c6ef372ul, 0xa54ff53aul, 0x510e527ful, 0x9b05688cul, 0x1f83d9abul, 0x5be0cd19ul};
/* digest of (a 64*k byte prefix already absorbed into st0) || m[0..len) */
static void ref_sha256_from(const uint32_t st0[8], uint64_t prebytes, const unsigned char *m, size_t len, unsigned char out[32]) {
    unsigned char buf[REF_SHA_MAX + 72]; uint32_t s[8]; size_t total, i; uint64_t bits = (prebytes + len) * 8;
    for (i = 0; i < 8; i++) s[i] = st0[i];
    total = ((len + 9 + 63) / 64) * 64;
    for (i = 0; i < sizeof(buf); i++) buf[i] = (i < len) ? m[i] : 0;
    buf[len] = 0x80;
    for (i = 0; i < 8; i++) buf[total - 1 - i] = (unsigned char)(bits >> (8 * i));
    for (i = 0; i < sizeof(buf) / 64; i++) if (i * 64 < total) STUB_secp256k1_sha256_transform_impl(s, buf + 64 * i);
    for (i = 0; i < 8; i++) { out[4 * i] = s[i] >> 24; out[4 * i + 1] = s[i] >> 16; out[4 * i + 2] = s[i] >> 8; out[4 * i + 3] = s[i]; }
}
static void ref_sha256(const unsigned char *m, size_t len, unsigned char out[32]) { ref_sha256_from(REF_SHA_IV, 0, m, len, out); }
/* BIP-340 style tagged hash from scratch: SHA256(SHA256(tag) || SHA256(tag) || m) */
static void ref_tagged(const unsigned char *tag, size_t taglen, const unsigned char *m, size_t len, unsigned char out[32]) {
    unsigned char th[32], pre[64]; uint32_t s[8]; int i;
    ref_sha256(tag, taglen, th); memcpy(pre, th, 32); memcpy(pre + 32, th, 32);
    for (i = 0; i < 8; i++) s[i] = REF_SHA_IV[i];
    STUB_secp256k1_sha256_transform_impl(s, pre);
    ref_sha256_from(s, 64, m, len, out);
}
#endif
