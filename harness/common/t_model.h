/* Engine T: the repository's own tiny instantiation (-DEXHAUSTIVE_TEST_ORDER=13: scalar_low, real field, real curve points of an order-13
 * subgroup) with the GROUP LAYER replaced by index arithmetic over a table generated from the real code at check time (gen_table.c, which
 * also validates the table against the real ecmult / ecmult_gen / gej_add_var), and SHA-256 compression an uninterpreted function.
 * All linear field code, serialisation, parity handling, hashing layout and the protocol logic are the real code.  Every stub asserts that
 * its operands are model values (z == 1, in the table), so a path that leaves the model is reported, not passed.
 * Include after "secp256k1.c"; stubs are installed by --replace-calls. */
#ifndef VERIF_T_MODEL_H
#define VERIF_T_MODEL_H
#include "tg_table.h"
#define TN EXHAUSTIVE_TEST_ORDER
typedef unsigned __CPROVER_bitvector[256] tbv256;
typedef unsigned __CPROVER_bitvector[512] tbv512;
tbv256 __CPROVER_uninterpreted_sha256ct(tbv256 st, tbv512 blk);
unsigned char nondet_uchar(void); int nondet_int(void); unsigned nondet_unsigned(void);
void STUB_secp256k1_sha256_transform_impl(uint32_t *s, const unsigned char *buf) {
    tbv256 st = 0; tbv512 blk = 0; int i;
    for (i = 0; i < 8; i++) st = (st << 32) | s[i];
    for (i = 0; i < 64; i++) blk = (blk << 8) | buf[i];
    st = __CPROVER_uninterpreted_sha256ct(st, blk);
    for (i = 7; i >= 0; i--) { s[i] = (uint32_t)st; st >>= 32; }
}
static int tg_fe_eq(const secp256k1_fe *a, const uint64_t *t) { secp256k1_fe c = *a; int i, e = 1; secp256k1_fe_normalize_var(&c); for (i = 0; i < 5; i++) e &= (c.n[i] == t[i]); return e; }
static unsigned tg_idx(const secp256k1_fe *x, const secp256k1_fe *y, int inf) { unsigned k, r = TN; if (inf) return 0; for (k = 1; k < TN; k++) if (tg_fe_eq(x, TG_X[k]) && tg_fe_eq(y, TG_Y[k])) r = k; return r; }
static void tg_set(secp256k1_fe *x, secp256k1_fe *y, int *inf, unsigned k) { int i; for (i = 0; i < 5; i++) { x->n[i] = TG_X[k][i]; y->n[i] = TG_Y[k][i]; } *inf = (k == 0); }
static void tg_set_gej(secp256k1_gej *r, unsigned k) { int i; tg_set(&r->x, &r->y, &r->infinity, k); for (i = 0; i < 5; i++) r->z.n[i] = (i == 0); }
static unsigned tg_idx_gej(const secp256k1_gej *a) { unsigned k; static const uint64_t one[5] = {1, 0, 0, 0, 0};
    __CPROVER_assert(a->infinity || tg_fe_eq(&a->z, one), "model: Jacobian operand has z == 1"); k = tg_idx(&a->x, &a->y, a->infinity); __CPROVER_assert(k < TN, "model: Jacobian operand is a table point"); return k; }
static unsigned tg_idx_ge(const secp256k1_ge *a) { unsigned k = tg_idx(&a->x, &a->y, a->infinity); __CPROVER_assert(k < TN, "model: affine operand is a table point"); return k; }
void STUB_secp256k1_ecmult_gen(const secp256k1_ecmult_gen_context *ctx, secp256k1_gej *r, const secp256k1_scalar *gn) { (void)ctx; tg_set_gej(r, *gn % TN); }
void STUB_secp256k1_ecmult(secp256k1_gej *r, const secp256k1_gej *a, const secp256k1_scalar *na, const secp256k1_scalar *ng) { unsigned ka = tg_idx_gej(a); tg_set_gej(r, (ka * (*na % TN) + (ng ? *ng % TN : 0)) % TN); }
void STUB_secp256k1_ecmult_const(secp256k1_gej *r, const secp256k1_ge *a, const secp256k1_scalar *q) { tg_set_gej(r, (tg_idx_ge(a) * (*q % TN)) % TN); }
void STUB_secp256k1_ge_set_gej(secp256k1_ge *r, secp256k1_gej *a) { tg_set(&r->x, &r->y, &r->infinity, tg_idx_gej(a)); }
void STUB_secp256k1_ge_set_gej_var(secp256k1_ge *r, secp256k1_gej *a) { tg_set(&r->x, &r->y, &r->infinity, tg_idx_gej(a)); }
void STUB_secp256k1_ge_set_all_gej(secp256k1_ge *r, const secp256k1_gej *a, size_t len) { size_t i; for (i = 0; i < len; i++) tg_set(&r[i].x, &r[i].y, &r[i].infinity, tg_idx_gej(&a[i])); }
void STUB_secp256k1_ge_set_all_gej_var(secp256k1_ge *r, const secp256k1_gej *a, size_t len) { size_t i; for (i = 0; i < len; i++) tg_set(&r[i].x, &r[i].y, &r[i].infinity, tg_idx_gej(&a[i])); }
void STUB_secp256k1_gej_add_ge(secp256k1_gej *r, const secp256k1_gej *a, const secp256k1_ge *b) { tg_set_gej(r, (tg_idx_gej(a) + tg_idx_ge(b)) % TN); }
void STUB_secp256k1_gej_add_ge_var(secp256k1_gej *r, const secp256k1_gej *a, const secp256k1_ge *b, secp256k1_fe *rzr) { __CPROVER_assert(rzr == NULL, "model: rzr unused"); tg_set_gej(r, (tg_idx_gej(a) + tg_idx_ge(b)) % TN); }
void STUB_secp256k1_gej_add_var(secp256k1_gej *r, const secp256k1_gej *a, const secp256k1_gej *b, secp256k1_fe *rzr) { __CPROVER_assert(rzr == NULL, "model: rzr unused"); tg_set_gej(r, (tg_idx_gej(a) + tg_idx_gej(b)) % TN); }
int STUB_secp256k1_ecmult_multi_var(const secp256k1_callback *ecb, secp256k1_scratch *scratch, secp256k1_gej *r, const secp256k1_scalar *g_sc, secp256k1_ecmult_multi_callback cb, void *cbdata, size_t n) {
    unsigned acc = g_sc ? *g_sc % TN : 0; size_t i; (void)ecb; (void)scratch;
    for (i = 0; i < n; i++) { secp256k1_scalar sc; secp256k1_ge pt; if (!cb(&sc, &pt, i, cbdata)) return 0; acc = (acc + (sc % TN) * tg_idx_ge(&pt)) % TN; }
    tg_set_gej(r, acc); return 1;
}
static int t_illegal, t_error;
static void t_count_illegal(const char *msg, void *data) { (void)msg; (void)data; t_illegal++; }
static void t_count_error(const char *msg, void *data) { (void)msg; (void)data; t_error++; }
static void t_ctx(secp256k1_context *ctx) { memset(ctx, 0, sizeof(*ctx)); t_illegal = t_error = 0; ctx->illegal_callback.fn = t_count_illegal; ctx->error_callback.fn = t_count_error; ctx->hash_ctx.fn_sha256_compression = secp256k1_sha256_transform; ctx->ecmult_gen_ctx.built = 1; }
#endif
