/* shared by every harness; include AFTER "secp256k1.c" */
#ifndef VERIF_VCOMMON_H
#define VERIF_VCOMMON_H
unsigned char nondet_uchar(void);
int nondet_int(void);
unsigned nondet_uint(void);
uint32_t nondet_u32(void);
uint64_t nondet_u64(void);
size_t nondet_size_t(void);
secp256k1_fe nondet_fe(void);
secp256k1_scalar nondet_scalar(void);
secp256k1_ge nondet_ge(void);
secp256k1_gej nondet_gej(void);

typedef unsigned __CPROVER_bitvector[320] bvw;

static int verif_illegal_count = 0;
static int verif_error_count = 0;
void verif_count_illegal(const char *msg, void *data) { (void)msg; (void)data; verif_illegal_count++; }
void verif_count_error(const char *msg, void *data) { (void)msg; (void)data; verif_error_count++; }

/* a context as context_create leaves it, with counting callbacks; blinding state arbitrary */
secp256k1_context nondet_ctx_(void);
static void verif_ctx_init(secp256k1_context *ctx) {
    *ctx = nondet_ctx_();
    ctx->illegal_callback.fn = verif_count_illegal; ctx->illegal_callback.data = 0;
    ctx->error_callback.fn = verif_count_error; ctx->error_callback.data = 0;
    ctx->hash_ctx.fn_sha256_compression = secp256k1_sha256_transform;
    ctx->ecmult_gen_ctx.built = 1;
    ctx->declassify = 0;
}

#if !defined(EXHAUSTIVE_TEST_ORDER) && defined(SECP256K1_WIDEMUL_INT128)
static bvw verif_P(void) { return (((bvw)1) << 256) - (bvw)0x1000003D1ULL; }
static bvw verif_N(void) { bvw n = 0xFFFFFFFFFFFFFFFFULL; n = (n << 64) | 0xFFFFFFFFFFFFFFFEULL; n = (n << 64) | 0xBAAEDCE6AF48A03BULL; n = (n << 64) | 0xBFD25E8CD0364141ULL; return n; }
static bvw fe_val(const secp256k1_fe *a) { bvw v = 0; int i; for (i = 0; i < 5; i++) v += ((bvw)a->n[i]) << (52 * i); return v; }
static bvw sc_val(const secp256k1_scalar *a) { bvw v = 0; int i; for (i = 0; i < 4; i++) v += ((bvw)a->d[i]) << (64 * i); return v; }
/* magnitude-1, limb-bounded field element (what kernels return) */
static secp256k1_fe verif_fe_m1(void) {
    secp256k1_fe r = nondet_fe();
    __CPROVER_assume((r.n[0] >> 52) == 0 && (r.n[1] >> 52) == 0 && (r.n[2] >> 52) == 0 && (r.n[3] >> 52) == 0 && (r.n[4] >> 48) == 0);
    return r;
}
/* scalar < n */
static secp256k1_scalar verif_sc(void) {
    secp256k1_scalar r = nondet_scalar();
    __CPROVER_assume(!secp256k1_scalar_check_overflow(&r));
    return r;
}
/* cheap modular helpers (conditional subtraction instead of a 320-bit divider circuit); valid for the stated operand ranges */
static bvw redN(bvw v) { return v >= verif_N() ? v - verif_N() : v; }                 /* v < 2n (e.g. any 256-bit value) */
static bvw redP(bvw v) { return v >= verif_P() ? v - verif_P() : v; }                 /* v < 2p */
static bvw addN(bvw a, bvw b) { return redN(a + b); }                                  /* a, b < n */
static bvw negN(bvw a) { return a == 0 ? 0 : verif_N() - a; }                          /* a < n */
static bvw negP(bvw a) { return a == 0 ? 0 : verif_P() - a; }                          /* a < p */
/* canonical value of a field element through the library's own (linear, bit-level) normalisation */
static bvw fe_cval(const secp256k1_fe *a) { secp256k1_fe t = *a; secp256k1_fe_normalize(&t); return fe_val(&t); }
#endif
/* C07: with -DEXACTBUF an input buffer becomes a separate object of EXACTLY n bytes, so that any read past the declared length is a bounds violation */
#ifdef EXACTBUF
#define EXACT(name, src, n) unsigned char name[(n) ? (n) : 1]; memcpy(name, src, (n))
#else
#define EXACT(name, src, n) const unsigned char *name = (const unsigned char *)(src)
#endif
static bvw be_val(const unsigned char *b, int n) { bvw v = 0; int i; for (i = 0; i < n; i++) v = (v << 8) | b[i]; return v; }
static int verif_allzero(const void *p, size_t n) { const unsigned char *b = (const unsigned char *)p; size_t i; unsigned char a = 0; for (i = 0; i < n; i++) a |= b[i]; return a == 0; }
#endif
