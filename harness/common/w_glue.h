/* Engine W "glue" model: curve routines return FREE points (canonical affine coordinates, z = 1, or infinity) and record
 * their arguments, so harnesses can assert both what is handed to the curve layer and what is done with its result.
 * Include after vcommon.h and w_stubs.h (with W_FIELD_TRANSPARENT so that z = 1 conversions are exact). */
#ifndef VERIF_W_GLUE_H
#define VERIF_W_GLUE_H
#ifndef GLUE_MAX
#define GLUE_MAX 4
#endif
static secp256k1_gej glue_R[GLUE_MAX];                 /* result of the i-th curve call (any kind), chosen by the harness */
static int glue_calls, glue_kind[GLUE_MAX];            /* kind: 1 ecmult, 2 ecmult_gen, 3 ecmult_const, 4 gej_add_ge(_var) */
static secp256k1_gej glue_a[GLUE_MAX]; static secp256k1_ge glue_b[GLUE_MAX];
static secp256k1_scalar glue_na[GLUE_MAX], glue_ng[GLUE_MAX]; static int glue_ng_null[GLUE_MAX];
static secp256k1_gej glue_free_point(void) {
    secp256k1_gej r; r.x = verif_fe_m1(); r.y = verif_fe_m1(); r.infinity = nondet_int() & 1;
    r.z.n[0] = 1; r.z.n[1] = r.z.n[2] = r.z.n[3] = r.z.n[4] = 0;
    __CPROVER_assume(fe_val(&r.x) < verif_P() && fe_val(&r.y) < verif_P());
    return r;
}
static void glue_init(void) { int i; for (i = 0; i < GLUE_MAX; i++) glue_R[i] = glue_free_point(); }
static int glue_next(int kind) { int i = glue_calls++; __CPROVER_assert(i < GLUE_MAX, "glue: at most GLUE_MAX curve calls"); glue_kind[i] = kind; return i; }
void STUB_secp256k1_ecmult(secp256k1_gej *r, const secp256k1_gej *a, const secp256k1_scalar *na, const secp256k1_scalar *ng) {
    int i = glue_next(1); glue_a[i] = *a; glue_na[i] = *na; glue_ng_null[i] = (ng == NULL); if (ng) glue_ng[i] = *ng; *r = glue_R[i];
}
void STUB_secp256k1_ecmult_gen(const secp256k1_ecmult_gen_context *ctx, secp256k1_gej *r, const secp256k1_scalar *gn) {
    int i = glue_next(2); (void)ctx; glue_ng[i] = *gn; *r = glue_R[i];
}
void STUB_secp256k1_ecmult_const(secp256k1_gej *r, const secp256k1_ge *a, const secp256k1_scalar *q) {
    int i = glue_next(3); glue_b[i] = *a; glue_na[i] = *q; *r = glue_R[i];
}
#ifdef GLUE_ADD
void STUB_secp256k1_gej_add_ge(secp256k1_gej *r, const secp256k1_gej *a, const secp256k1_ge *b) { int i = glue_next(4); glue_a[i] = *a; glue_b[i] = *b; *r = glue_R[i]; }
void STUB_secp256k1_gej_add_ge_var(secp256k1_gej *r, const secp256k1_gej *a, const secp256k1_ge *b, secp256k1_fe *rzr) { int i = glue_next(4); (void)rzr; glue_a[i] = *a; glue_b[i] = *b; *r = glue_R[i]; }
static secp256k1_gej glue_c[GLUE_MAX];
/* a + b for two Jacobian operands.  The result is a free point, EXCEPT for what the group law fixes outright on the canonical (z = 1)
 * points of this model: inf + Q = Q, P + inf = P, and for finite P, Q: P + Q = inf  <=>  Q = -P  <=>  (x equal, y opposite).
 * So "is the sum infinite" decides point equality exactly, however the code under analysis phrases the comparison. */
static int glue_z1(const secp256k1_gej *p) { return p->z.n[0] == 1 && !(p->z.n[1] | p->z.n[2] | p->z.n[3] | p->z.n[4]); }
void STUB_secp256k1_gej_add_var(secp256k1_gej *r, const secp256k1_gej *a, const secp256k1_gej *b, secp256k1_fe *rzr) {
    int i = glue_next(5); secp256k1_gej out = glue_R[i]; (void)rzr; glue_a[i] = *a; glue_c[i] = *b;
    if (a->infinity) out = *b;
    else if (b->infinity) out = *a;
    else if (glue_z1(a) && glue_z1(b)) out.infinity = (fe_cval(&a->x) == fe_cval(&b->x) && fe_cval(&a->y) == negP(fe_cval(&b->y)));
    glue_R[i] = out; *r = out;
}
#endif
/* value of a 32-byte storage word array (4 native-endian uint64), as used by pubkey / keypair / signature objects */
static bvw st_val(const unsigned char *p) { uint64_t w[4]; bvw v = 0; int i; memcpy(w, p, 32); for (i = 3; i >= 0; i--) v = (v << 64) | w[i]; return v; }
static void be32_of(unsigned char *o, bvw v) { int i; for (i = 31; i >= 0; i--) { o[i] = (unsigned char)v; v >>= 8; } }
static int pk_is(const secp256k1_pubkey *pk, bvw x, bvw y) { return st_val(&pk->data[0]) == x && st_val(&pk->data[32]) == y; }
static int gej_is(const secp256k1_gej *a, bvw x, bvw y) { return !a->infinity && fe_val(&a->x) % verif_P() == x && fe_val(&a->y) % verif_P() == y && fe_val(&a->z) == 1; }
#endif
