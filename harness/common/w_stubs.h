/* Engine W: opaque multiplicative kernels at real width (DESIGN 2.2).
 * Include AFTER "secp256k1.c" and "vcommon.h".  Every function STUB_<f> defined here is
 * installed by the driver with goto-instrument --replace-calls <f>:STUB_<f>.
 * Each stub returns an arbitrary value of the right type satisfying the kernel's documented
 * post-condition, i.e. W over-approximates every possible kernel behaviour.
 * Select groups with W_FIELD, W_SCALAR, W_ECMULT, W_SHA_HAVOC / W_SHA_UF before including. */
#ifndef VERIF_W_STUBS_H
#define VERIF_W_STUBS_H

#ifdef W_FIELD
void STUB_secp256k1_fe_impl_mul(secp256k1_fe *r, const secp256k1_fe *a, const secp256k1_fe * SECP256K1_RESTRICT b) { (void)a; (void)b; *r = verif_fe_m1(); }
void STUB_secp256k1_fe_impl_sqr(secp256k1_fe *r, const secp256k1_fe *a) { (void)a; *r = verif_fe_m1(); }
void STUB_secp256k1_fe_impl_inv(secp256k1_fe *r, const secp256k1_fe *a) { (void)a; *r = verif_fe_m1(); }
void STUB_secp256k1_fe_impl_inv_var(secp256k1_fe *r, const secp256k1_fe *a) { (void)a; *r = verif_fe_m1(); }
int STUB_secp256k1_fe_sqrt(secp256k1_fe * SECP256K1_RESTRICT r, const secp256k1_fe * SECP256K1_RESTRICT a) { (void)a; *r = verif_fe_m1(); return nondet_int() & 1; }
int STUB_secp256k1_fe_impl_is_square_var(const secp256k1_fe *x) { (void)x; return nondet_int() & 1; }
#endif

#ifdef W_SCALAR
void STUB_secp256k1_scalar_mul(secp256k1_scalar *r, const secp256k1_scalar *a, const secp256k1_scalar *b) { (void)a; (void)b; *r = verif_sc(); }
void STUB_secp256k1_scalar_inverse(secp256k1_scalar *r, const secp256k1_scalar *a) { (void)a; *r = verif_sc(); }
void STUB_secp256k1_scalar_inverse_var(secp256k1_scalar *r, const secp256k1_scalar *a) { (void)a; *r = verif_sc(); }
#endif

#ifdef W_ECMULT
static secp256k1_gej verif_gej_any(void) {
    secp256k1_gej r;
    r.x = verif_fe_m1(); r.y = verif_fe_m1(); r.z = verif_fe_m1(); r.infinity = nondet_int() & 1;
    return r;
}
void STUB_secp256k1_ecmult(secp256k1_gej *r, const secp256k1_gej *a, const secp256k1_scalar *na, const secp256k1_scalar *ng) { (void)a; (void)na; (void)ng; *r = verif_gej_any(); }
void STUB_secp256k1_ecmult_gen(const secp256k1_ecmult_gen_context *ctx, secp256k1_gej *r, const secp256k1_scalar *gn) { (void)ctx; (void)gn; *r = verif_gej_any(); }
void STUB_secp256k1_ecmult_const(secp256k1_gej *r, const secp256k1_ge *a, const secp256k1_scalar *q) { (void)a; (void)q; *r = verif_gej_any(); }
int STUB_secp256k1_ecmult_const_xonly(secp256k1_fe *r, const secp256k1_fe *n, const secp256k1_fe *d, const secp256k1_scalar *q, int known_on_curve) { (void)n; (void)d; (void)q; *r = verif_fe_m1(); return known_on_curve ? 1 : (nondet_int() & 1); }
#ifndef W_KEEP_MULTI
int STUB_secp256k1_ecmult_multi_var(const secp256k1_callback *error_callback, secp256k1_scratch *scratch, secp256k1_gej *r, const secp256k1_scalar *inp_g_sc, secp256k1_ecmult_multi_callback cb, void *cbdata, size_t n) {
    (void)error_callback; (void)scratch; (void)inp_g_sc; (void)cb; (void)cbdata; (void)n; *r = verif_gej_any(); return nondet_int() & 1;
}
#endif
#endif

#ifdef W_SHA_HAVOC
struct verif_sha_state { uint32_t s[8]; };
struct verif_sha_state nondet_sha_state(void);
void STUB_secp256k1_sha256_transform_impl(uint32_t *s, const unsigned char *buf) { struct verif_sha_state t = nondet_sha_state(); int i; (void)buf; for (i = 0; i < 8; i++) s[i] = t.s[i]; }
#endif

#ifdef W_SHA_UF
typedef unsigned __CPROVER_bitvector[256] bv256;
typedef unsigned __CPROVER_bitvector[512] bv512;
bv256 __CPROVER_uninterpreted_sha256c(bv256 st, bv512 blk);
void STUB_secp256k1_sha256_transform_impl(uint32_t *s, const unsigned char *buf) {
    bv256 st = 0; bv512 blk = 0; int i;
    for (i = 0; i < 8; i++) st = (st << 32) | s[i];
    for (i = 0; i < 64; i++) blk = (blk << 8) | buf[i];
    st = __CPROVER_uninterpreted_sha256c(st, blk);
    for (i = 7; i >= 0; i--) { s[i] = (uint32_t)st; st >>= 32; }
}
#endif
#ifdef W_SHA_API
/* whole-call abstraction of the hash API for harnesses whose subject is not the hash layout:
 * checks the caller's (pointer,length) pair, then havocs the state / the digest. */
struct verif_sha_obj { secp256k1_sha256 h; };
struct verif_sha_obj nondet_sha_obj(void);
struct verif_digest { unsigned char b[32]; };
struct verif_digest nondet_digest(void);
void STUB_secp256k1_sha256_write(const secp256k1_hash_ctx *hash_ctx, secp256k1_sha256 *hash, const unsigned char *data, size_t size) {
    struct verif_sha_obj t = nondet_sha_obj(); (void)hash_ctx;
    __CPROVER_assert(size == 0 || __CPROVER_r_ok(data, size), "sha256_write: data[0..size) readable");
    *hash = t.h;
}
void STUB_secp256k1_sha256_finalize(const secp256k1_hash_ctx *hash_ctx, secp256k1_sha256 *hash, unsigned char *out32) {
    struct verif_digest d = nondet_digest(); struct verif_sha_obj t = nondet_sha_obj(); (void)hash_ctx;
    __CPROVER_assert(__CPROVER_w_ok(out32, 32), "sha256_finalize: out32 writable");
    memcpy(out32, d.b, 32); *hash = t.h;
}
#endif
#endif

/* ---- variants used by "glue" harnesses (included separately via macros; same install mechanism) ---- */
#ifdef W_FIELD_TRANSPARENT
/* opaque field kernels that are exact on the trivial operand 1 (so that z = 1 points keep their coordinates) */
static int verif_fe_is_one(const secp256k1_fe *a) { return a->n[0] == 1 && !(a->n[1] | a->n[2] | a->n[3] | a->n[4]); }
void STUB_secp256k1_fe_impl_mul(secp256k1_fe *r, const secp256k1_fe *a, const secp256k1_fe * SECP256K1_RESTRICT b) { if (verif_fe_is_one(a)) *r = *b; else if (verif_fe_is_one(b)) *r = *a; else *r = verif_fe_m1(); }
void STUB_secp256k1_fe_impl_sqr(secp256k1_fe *r, const secp256k1_fe *a) { if (verif_fe_is_one(a)) *r = *a; else *r = verif_fe_m1(); }
void STUB_secp256k1_fe_impl_inv(secp256k1_fe *r, const secp256k1_fe *a) { if (verif_fe_is_one(a)) *r = *a; else *r = verif_fe_m1(); }
void STUB_secp256k1_fe_impl_inv_var(secp256k1_fe *r, const secp256k1_fe *a) { if (verif_fe_is_one(a)) *r = *a; else *r = verif_fe_m1(); }
#ifndef W_OWN_SQRT
int STUB_secp256k1_fe_sqrt(secp256k1_fe * SECP256K1_RESTRICT r, const secp256k1_fe * SECP256K1_RESTRICT a) { (void)a; *r = verif_fe_m1(); return nondet_int() & 1; }
#endif
#ifndef W_OWN_ISSQUARE
int STUB_secp256k1_fe_impl_is_square_var(const secp256k1_fe *x) { (void)x; return nondet_int() & 1; }
#endif
#endif

#ifdef W_SCALAR_UF
/* scalar multiplication / inversion as uninterpreted functions over 256-bit values (functional consistency only) */
typedef unsigned __CPROVER_bitvector[256] sbv;
sbv __CPROVER_uninterpreted_scmul(sbv a, sbv b);
sbv __CPROVER_uninterpreted_scinv(sbv a);
static sbv sc_bv(const secp256k1_scalar *a) { return (((((sbv)a->d[3] << 64) | a->d[2]) << 64 | a->d[1]) << 64) | a->d[0]; }
static void sc_from_bv(secp256k1_scalar *r, sbv v) { r->d[0] = (uint64_t)v; r->d[1] = (uint64_t)(v >> 64); r->d[2] = (uint64_t)(v >> 128); r->d[3] = (uint64_t)(v >> 192); }
/* commutative by construction (operands ordered), exact on the trivial operands 0 and 1: true facts about multiplication mod n,
 * so that a refactor that merely swaps operands or multiplies by a constant 1 is not reported */
static sbv uf_scmul(sbv a, sbv b) {
    sbv lo = a < b ? a : b, hi = a < b ? b : a, r;
    if (lo == 0) return 0;
    if (lo == 1) return hi;
    r = __CPROVER_uninterpreted_scmul(lo, hi); __CPROVER_assume((bvw)r < verif_N()); return r;
}
static sbv uf_scinv(sbv a) { sbv r = __CPROVER_uninterpreted_scinv(a); __CPROVER_assume((bvw)r < verif_N()); __CPROVER_assume((a == 0) == (r == 0)); return r; }
void STUB_secp256k1_scalar_mul(secp256k1_scalar *r, const secp256k1_scalar *a, const secp256k1_scalar *b) { sc_from_bv(r, uf_scmul(sc_bv(a), sc_bv(b))); }
void STUB_secp256k1_scalar_inverse(secp256k1_scalar *r, const secp256k1_scalar *a) { sc_from_bv(r, uf_scinv(sc_bv(a))); }
void STUB_secp256k1_scalar_inverse_var(secp256k1_scalar *r, const secp256k1_scalar *a) { sc_from_bv(r, uf_scinv(sc_bv(a))); }
#endif
