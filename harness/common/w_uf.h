/* Engine W, FUNCTIONAL variant: every multiplicative kernel is an uninterpreted FUNCTION of its operand values
 * (CBMC __CPROVER_uninterpreted_*: functional consistency only).  Two executions that hand equal operands to a kernel
 * get equal results, so 2-safety statements (output equality across contexts / histories / initial contents of statics)
 * can be decided while the kernels stay opaque.  Include after vcommon.h; stubs installed by --replace-calls. */
#ifndef VERIF_W_UF_H
#define VERIF_W_UF_H
/* optional hooks (C06): W_UF_ENTER / W_UF_LEAVE bracket every stub body, W_UF_VT(p, len) sees the operands of variable-time routines */
#ifndef W_UF_ENTER
#define W_UF_ENTER
#define W_UF_LEAVE
#define W_UF_VT(p, len)
#endif
typedef unsigned __CPROVER_bitvector[256] u256;
typedef unsigned __CPROVER_bitvector[512] u512;
u256 __CPROVER_uninterpreted_femul(bvw a, bvw b);
u256 __CPROVER_uninterpreted_fesqr(bvw a);
u256 __CPROVER_uninterpreted_feinv(bvw a);
u256 __CPROVER_uninterpreted_fesqrt(bvw a);
int __CPROVER_uninterpreted_fesqrt_ok(bvw a);
int __CPROVER_uninterpreted_feissq(bvw a);
u256 __CPROVER_uninterpreted_scmul2(u256 a, u256 b);
u256 __CPROVER_uninterpreted_scinv2(u256 a);
u256 __CPROVER_uninterpreted_genx(u256 gn);
u256 __CPROVER_uninterpreted_geny(u256 gn);
u256 __CPROVER_uninterpreted_genz(u256 gn);
u256 __CPROVER_uninterpreted_emx(bvw ax, bvw ay, bvw az, int ainf, u256 na, u256 ng);
u256 __CPROVER_uninterpreted_emy(bvw ax, bvw ay, bvw az, int ainf, u256 na, u256 ng);
int __CPROVER_uninterpreted_eminf(bvw ax, bvw ay, bvw az, int ainf, u256 na, u256 ng);
u256 __CPROVER_uninterpreted_sha256c2(u256 st, u512 blk);

static void uf_fe_set(secp256k1_fe *r, u256 v) {
    __CPROVER_assume((bvw)v < verif_P());
    r->n[0] = (uint64_t)(v & 0xFFFFFFFFFFFFFULL); r->n[1] = (uint64_t)((v >> 52) & 0xFFFFFFFFFFFFFULL); r->n[2] = (uint64_t)((v >> 104) & 0xFFFFFFFFFFFFFULL);
    r->n[3] = (uint64_t)((v >> 156) & 0xFFFFFFFFFFFFFULL); r->n[4] = (uint64_t)(v >> 208);
}
static u256 uf_sc_get(const secp256k1_scalar *a) { return (((((u256)a->d[3] << 64) | a->d[2]) << 64 | a->d[1]) << 64) | a->d[0]; }
static void uf_sc_set(secp256k1_scalar *r, u256 v) { __CPROVER_assume((bvw)v < verif_N()); r->d[0] = (uint64_t)v; r->d[1] = (uint64_t)(v >> 64); r->d[2] = (uint64_t)(v >> 128); r->d[3] = (uint64_t)(v >> 192); }

void STUB_secp256k1_fe_impl_mul(secp256k1_fe *r, const secp256k1_fe *a, const secp256k1_fe * SECP256K1_RESTRICT b) { W_UF_ENTER uf_fe_set(r, __CPROVER_uninterpreted_femul(fe_val(a), fe_val(b))); W_UF_LEAVE }
void STUB_secp256k1_fe_impl_sqr(secp256k1_fe *r, const secp256k1_fe *a) { W_UF_ENTER uf_fe_set(r, __CPROVER_uninterpreted_fesqr(fe_val(a))); W_UF_LEAVE }
void STUB_secp256k1_fe_impl_inv(secp256k1_fe *r, const secp256k1_fe *a) { W_UF_ENTER uf_fe_set(r, __CPROVER_uninterpreted_feinv(fe_val(a))); W_UF_LEAVE }
void STUB_secp256k1_fe_impl_inv_var(secp256k1_fe *r, const secp256k1_fe *a) { W_UF_ENTER W_UF_VT(a, sizeof(*a)); uf_fe_set(r, __CPROVER_uninterpreted_feinv(fe_val(a))); W_UF_LEAVE }
int STUB_secp256k1_fe_sqrt(secp256k1_fe * SECP256K1_RESTRICT r, const secp256k1_fe * SECP256K1_RESTRICT a) { W_UF_ENTER bvw v = fe_val(a); int ok; uf_fe_set(r, __CPROVER_uninterpreted_fesqrt(v)); ok = __CPROVER_uninterpreted_fesqrt_ok(v) & 1; W_UF_LEAVE return ok; }
int STUB_secp256k1_fe_impl_is_square_var(const secp256k1_fe *x) { W_UF_ENTER int v; W_UF_VT(x, sizeof(*x)); v = __CPROVER_uninterpreted_feissq(fe_val(x)) & 1; W_UF_LEAVE return v; }
void STUB_secp256k1_scalar_mul(secp256k1_scalar *r, const secp256k1_scalar *a, const secp256k1_scalar *b) { W_UF_ENTER uf_sc_set(r, __CPROVER_uninterpreted_scmul2(uf_sc_get(a), uf_sc_get(b))); W_UF_LEAVE }
void STUB_secp256k1_scalar_inverse(secp256k1_scalar *r, const secp256k1_scalar *a) { W_UF_ENTER uf_sc_set(r, __CPROVER_uninterpreted_scinv2(uf_sc_get(a))); W_UF_LEAVE }
void STUB_secp256k1_scalar_inverse_var(secp256k1_scalar *r, const secp256k1_scalar *a) { W_UF_ENTER W_UF_VT(a, sizeof(*a)); uf_sc_set(r, __CPROVER_uninterpreted_scinv2(uf_sc_get(a))); W_UF_LEAVE }
/* gn*G as a function of gn ONLY: this is the blinding invariant (proved inductive in C20's blind_step query, and
 * ecmult_gen's use of it is the group law, C05) stated as a stub. */
static int uf_gen_calls;
void STUB_secp256k1_ecmult_gen(const secp256k1_ecmult_gen_context *ctx, secp256k1_gej *r, const secp256k1_scalar *gn) { W_UF_ENTER
    u256 g = uf_sc_get(gn); (void)ctx; uf_gen_calls++;
    uf_fe_set(&r->x, __CPROVER_uninterpreted_genx(g)); uf_fe_set(&r->y, __CPROVER_uninterpreted_geny(g));
#ifdef W_UF_GEN_Z   /* C06: the Jacobian z of a fixed-base product depends on the (secret) scalar and blinding, like its x and y */
    uf_fe_set(&r->z, __CPROVER_uninterpreted_genz(g)); r->infinity = (g == 0); W_UF_LEAVE }
#else
    r->z.n[0] = 1; r->z.n[1] = r->z.n[2] = r->z.n[3] = r->z.n[4] = 0; r->infinity = (g == 0); W_UF_LEAVE }
#endif
void STUB_secp256k1_ecmult(secp256k1_gej *r, const secp256k1_gej *a, const secp256k1_scalar *na, const secp256k1_scalar *ng) { W_UF_ENTER W_UF_VT(&a->x, sizeof(a->x)); W_UF_VT(&a->y, sizeof(a->y)); W_UF_VT(&a->z, sizeof(a->z)); W_UF_VT(&a->infinity, sizeof(int)); W_UF_VT(na, sizeof(*na)); if (ng) W_UF_VT(ng, sizeof(*ng));
    bvw ax = fe_val(&a->x), ay = fe_val(&a->y), az = fe_val(&a->z); int ai = a->infinity; u256 n1 = uf_sc_get(na), n2 = ng ? uf_sc_get(ng) : 0;
    if (ai) { ax = ay = az = 0; }
    uf_fe_set(&r->x, __CPROVER_uninterpreted_emx(ax, ay, az, ai, n1, n2)); uf_fe_set(&r->y, __CPROVER_uninterpreted_emy(ax, ay, az, ai, n1, n2));
    r->z.n[0] = 1; r->z.n[1] = r->z.n[2] = r->z.n[3] = r->z.n[4] = 0; r->infinity = __CPROVER_uninterpreted_eminf(ax, ay, az, ai, n1, n2) & 1; W_UF_LEAVE }
void STUB_secp256k1_ecmult_const(secp256k1_gej *r, const secp256k1_ge *a, const secp256k1_scalar *q) { W_UF_ENTER
    bvw ax = fe_val(&a->x), ay = fe_val(&a->y); int ai = a->infinity; u256 n1 = uf_sc_get(q);
    if (ai) { ax = ay = 0; }
    uf_fe_set(&r->x, __CPROVER_uninterpreted_emx(ax, ay, 1, ai, n1, 0)); uf_fe_set(&r->y, __CPROVER_uninterpreted_emy(ax, ay, 1, ai, n1, 0));
    r->z.n[0] = 1; r->z.n[1] = r->z.n[2] = r->z.n[3] = r->z.n[4] = 0; r->infinity = __CPROVER_uninterpreted_eminf(ax, ay, 1, ai, n1, 0) & 1; W_UF_LEAVE }
u256 __CPROVER_uninterpreted_cxo(bvw n, bvw d, u256 q); int __CPROVER_uninterpreted_cxo_ok(bvw n, bvw d, u256 q);
int STUB_secp256k1_ecmult_const_xonly(secp256k1_fe *r, const secp256k1_fe *n, const secp256k1_fe *d, const secp256k1_scalar *q, int known_on_curve) { W_UF_ENTER
    bvw nv = fe_val(n), dv = d ? fe_val(d) : 1; u256 qv = uf_sc_get(q); int ok;
    uf_fe_set(r, __CPROVER_uninterpreted_cxo(nv, dv, qv)); ok = known_on_curve | (__CPROVER_uninterpreted_cxo_ok(nv, dv, qv) & 1); W_UF_LEAVE return ok; }
/* optional bound on the number of compression calls per run (used to cut RFC 6979 retry attempts: stated bound) */
static int uf_sha_calls, uf_sha_cap = 1 << 20;
void STUB_secp256k1_sha256_transform_impl(uint32_t *s, const unsigned char *buf) { W_UF_ENTER
    u256 st = 0; u512 blk = 0; int i;
    uf_sha_calls++; __CPROVER_assume(uf_sha_calls <= uf_sha_cap);
    for (i = 0; i < 8; i++) st = (st << 32) | s[i];
    for (i = 0; i < 64; i++) blk = (blk << 8) | buf[i];
    st = __CPROVER_uninterpreted_sha256c2(st, blk);
    for (i = 7; i >= 0; i--) { s[i] = (uint32_t)st; st >>= 32; } W_UF_LEAVE }
#endif
