"""Query runner for the solver-based checks (engines B/W/T/CT via CBMC, K via z3).

A *query* is one solver problem regenerated from /repo's working tree:
  harness TU (includes /repo/src/secp256k1.c) -> goto-cc -> goto-instrument
  (stub redirection) -> cbmc (symbolic execution + SAT) -> verdict.
Verdict rules (fail closed):
  PASS       every non-witness property SUCCESS, every "witness:" property FAILURE
             (= reachable), no unwinding assertion failed, tool exit clean.
  VIOLATION  some non-witness, non-unwinding property FAILURE.
  BROKEN     anything else (timeout, OOM, tool error, failed unwinding assertion,
             witness unreachable, abstraction-completeness check failed).
"""
import hashlib
import json
import os
import re
import resource
import shutil
import subprocess
import sys
import threading
import time
from concurrent.futures import ThreadPoolExecutor

VERIF = os.path.dirname(os.path.dirname(os.path.abspath(__file__)))
REPO = os.environ.get("VERIF_REPO", "/repo")
COMMON = os.path.join(VERIF, "harness", "common")

# kernels that must never be symbolically executed in a W/T query (DESIGN 2, "abstraction completeness")
MUST_ABSTRACT = [
    "secp256k1_fe_impl_mul", "secp256k1_fe_impl_sqr", "secp256k1_fe_impl_inv", "secp256k1_fe_impl_inv_var",
    "secp256k1_fe_sqrt", "secp256k1_fe_impl_is_square_var", "secp256k1_modinv64", "secp256k1_modinv64_var",
    "secp256k1_modinv32", "secp256k1_modinv32_var", "secp256k1_jacobi64_maybe_var", "secp256k1_jacobi32_maybe_var",
    "secp256k1_scalar_inverse", "secp256k1_scalar_inverse_var",
    "secp256k1_ecmult", "secp256k1_ecmult_gen", "secp256k1_ecmult_const", "secp256k1_ecmult_const_xonly",
    "secp256k1_ecmult_multi_var", "secp256k1_ecmult_strauss_wnaf", "secp256k1_sha256_transform_impl",
    "secp256k1_fe_mul_inner", "secp256k1_fe_sqr_inner",
]


class Query:
    def __init__(self, name, src, func, defs=(), unwind=None, unwindset=(), flags=(), solver="kissat",
                 timeout=600, tier="quick", mem_gb=3, allow=(), nondet_static=False, instrument=(),
                 desc="", kind="cbmc", pyfunc=None, cover_tag=None, bounds="", expect_fail=()):
        self.name = name            # unique within the property
        self.src = src              # path relative to /verif/harness
        self.func = func
        self.defs = list(defs)
        self.unwind = unwind
        self.unwindset = list(unwindset)
        self.flags = list(flags)
        self.solver = solver
        self.timeout = timeout
        self.tier = tier            # "quick" (run in both tiers) or "thorough"
        self.mem_gb = mem_gb
        self.allow = set(allow)     # MUST_ABSTRACT members this query deliberately executes
        self.nondet_static = nondet_static
        self.instrument = list(instrument)  # extra goto-instrument passes (list of arg lists)
        self.desc = desc
        self.kind = kind            # "cbmc" | "py"
        self.pyfunc = pyfunc
        self.bounds = bounds
        self.expect_fail = list(expect_fail)
        # functions whose body is replaced by assert(false)+assume(false): only spurious function-pointer candidates may name them.
        # Default: the two 8-argument batch multipliers that CBMC lists as candidates for 8-argument nonce-function pointers; every W harness
        # stubs their only real caller (ecmult_multi_var), so reaching them would be reported by the assert(false).
        self.unreachable = ["secp256k1_ecmult_strauss_batch", "secp256k1_ecmult_pippenger_batch"]
        self.concrete = []          # [(assertion substring, C file under harness/, expected stdout substring)]
        self.gen_table = 0          # engine T: group order for which the table is generated (from the real code) before the build


class Result:
    def __init__(self, q):
        self.q = q
        self.status = "BROKEN"
        self.reason = ""
        self.props = {}          # id -> (desc, status)
        self.violations = []     # [(id, desc)]
        self.witness_ok = []
        self.wall = 0.0
        self.solver_s = 0.0
        self.symex_s = 0.0
        self.rss_mb = 0
        self.functions = []
        self.stubs = []
        self.vccs = 0
        self.vccs_remaining = 0
        self.log = ""
        self.replays = []
        self.extra = {}


def _limits(mem_gb):
    def f():
        resource.setrlimit(resource.RLIMIT_STACK, (resource.RLIM_INFINITY, resource.RLIM_INFINITY))
        b = int(mem_gb * (1 << 30))
        resource.setrlimit(resource.RLIMIT_AS, (b, b))
        os.setsid()
    return f


def run(cmd, cwd, timeout, mem_gb=8, out=None):
    """run a tool; returns (rc, output, wall, maxrss_mb); rc=-9 on timeout"""
    t0 = time.time()
    fo = open(out, "w") if out else subprocess.PIPE
    p = subprocess.Popen(cmd, cwd=cwd, stdout=fo, stderr=subprocess.STDOUT, preexec_fn=_limits(mem_gb), text=True)
    try:
        o, _ = p.communicate(timeout=timeout)
        rc = p.returncode
    except subprocess.TimeoutExpired:
        try:
            os.killpg(p.pid, 9)
        except Exception:
            pass
        p.kill()
        o, _ = p.communicate()
        rc = -9
    if out:
        fo.close()
        o = open(out, errors="replace").read()
    ru = resource.getrusage(resource.RUSAGE_CHILDREN)
    return rc, o or "", time.time() - t0, ru.ru_maxrss // 1024


PROP_RE = re.compile(r"^\[(\S+)\] (?:line \d+ )?(.*): (SUCCESS|FAILURE|UNKNOWN|ERROR)$")


def solver_args(solver):
    if solver == "kissat":
        return ["--external-sat-solver", "kissat"]
    if solver == "cadical":
        return ["--sat-solver", "cadical"]
    if solver == "minisat":
        return []
    if solver == "z3":
        return ["--z3"]
    if solver == "cvc5":
        return ["--cvc5"]
    raise ValueError(solver)


def include_args():
    return ["-I" + os.path.join(REPO, "src"), "-I" + os.path.join(REPO, "include"), "-I" + REPO, "-I" + COMMON,
            "-I" + os.path.join(VERIF, "harness")]


def detect_stubs(q, wd):
    """STUB_<f> definitions visible after preprocessing => replace calls f -> STUB_<f>"""
    src = os.path.join(VERIF, "harness", q.src)
    rc, o, _, _ = run(["gcc", "-E", "-P", "-D__CPROVER__", "-I" + wd] + include_args() + ["-D" + d for d in q.defs] + [src],
                      wd, 120)
    if rc != 0:
        return None, o
    names = sorted(set(re.findall(r"\bSTUB_(\w+)\s*\(", o)))
    return names, ""


def gen_table(q, wd, res):
    """engine T: compile harness/common/gen_table.c with gcc against the REAL code of the tree under test, run it (it validates the table
    against ecmult / ecmult_gen / gej_add_var on all pairs) and leave tg_table.h in the query's work directory"""
    exe = os.path.join(wd, "gen_table")
    cmd = ["gcc", "-O1", "-w", "-DEXHAUSTIVE_TEST_ORDER=%d" % q.gen_table] + include_args() + [os.path.join(COMMON, "gen_table.c"), "-o", exe]
    rc, o, _, _ = run(cmd, wd, 600, mem_gb=8)
    if rc != 0:
        res.reason = "table generator build failed: " + o[-1500:]
        return False
    rc, o, _, _ = run([exe], wd, 300, mem_gb=4)
    if rc != 0 or "TG_X" not in o:
        res.reason = "table generator / model validation against the real group code failed: " + o[-1500:]
        return False
    open(os.path.join(wd, "tg_table.h"), "w").write(o)
    return True


def build(q, wd, res):
    src = os.path.join(VERIF, "harness", q.src)
    if q.gen_table and not gen_table(q, wd, res):
        return None
    stubs, err = detect_stubs(q, wd)
    if stubs is None:
        res.reason = "preprocess failed: " + err[-2000:]
        return None
    res.stubs = stubs
    g1 = os.path.join(wd, "q1.gb")
    rc, o, _, _ = run(["goto-cc", "-I" + wd] + include_args() + ["-D" + d for d in q.defs] + [src, "-o", g1], wd, 300)
    if rc != 0:
        res.reason = "goto-cc failed: " + o[-3000:]
        return None
    cur = g1
    n = 1
    if stubs:
        n += 1
        nxt = os.path.join(wd, "q%d.gb" % n)
        args = ["goto-instrument"]
        for s in stubs:
            args += ["--replace-calls", "%s:STUB_%s" % (s, s)]
        rc, o, _, _ = run(args + [cur, nxt], wd, 300)
        if rc != 0:
            res.reason = "goto-instrument --replace-calls failed: " + o[-3000:]
            return None
        cur = nxt
    if q.unreachable:
        for step in (["--remove-function-body", None], ["--generate-function-body", None, "--generate-function-body-options", "assert-false-assume-false"]):
            n += 1
            nxt = os.path.join(wd, "q%d.gb" % n)
            if step[0] == "--remove-function-body":
                args = []
                for f in q.unreachable:
                    args += ["--remove-function-body", f]
            else:
                args = ["--generate-function-body", "^(" + "|".join(q.unreachable) + ")$", "--generate-function-body-options", "assert-false-assume-false"]
            rc, o, _, _ = run(["goto-instrument"] + args + [cur, nxt], wd, 300)
            if rc != 0:
                res.reason = "goto-instrument %s failed: %s" % (args[:2], o[-2000:])
                return None
            cur = nxt
    for extra in q.instrument:
        n += 1
        nxt = os.path.join(wd, "q%d.gb" % n)
        rc, o, _, _ = run(["goto-instrument"] + list(extra) + [cur, nxt], wd, 600, mem_gb=16)
        if rc != 0:
            res.reason = "goto-instrument %s failed: %s" % (extra, o[-3000:])
            return None
        cur = nxt
    if q.nondet_static:
        n += 1
        nxt = os.path.join(wd, "q%d.gb" % n)
        rc, o, _, _ = run(["goto-instrument", "--nondet-static", cur, nxt], wd, 600, mem_gb=16)
        if rc != 0:
            res.reason = "goto-instrument --nondet-static failed: " + o[-3000:]
            return None
        cur = nxt
    return cur


def list_functions(gb, q, wd):
    rc, o, _, _ = run(["cbmc", gb, "--function", q.func, "--drop-unused-functions", "--list-goto-functions"], wd, 300)
    if rc != 0:
        return None
    return sorted(set(re.findall(r"^(\w+) /\* ", o, re.M)))


def cbmc_cmd(q, gb, extra=()):
    cmd = ["cbmc", gb, "--function", q.func, "--unwinding-assertions", "--drop-unused-functions",
           "--object-bits", "12", "--pointer-overflow-check", "--no-malloc-may-fail", "--verbosity", "8"]
    if q.unwind is not None:
        cmd += ["--unwind", str(q.unwind)]
    if q.unwindset:
        cmd += ["--unwindset", ",".join(q.unwindset)]
    fl = list(q.flags)
    if "--malloc-may-fail" in fl:
        cmd.remove("--no-malloc-may-fail")
    cmd += fl
    cmd += solver_args(q.solver)
    cmd += list(extra)
    return cmd


def parse_cbmc(o, res):
    for line in o.splitlines():
        m = PROP_RE.match(line.strip())
        if m:
            res.props[m.group(1)] = (m.group(2), m.group(3))
    m = re.findall(r"Runtime decision procedure: ([0-9.]+)s", o)
    res.solver_s = sum(float(x) for x in m)
    m = re.findall(r"Runtime Symex: ([0-9.]+)s", o)
    res.symex_s = sum(float(x) for x in m)
    m = re.search(r"Generated (\d+) VCC\(s\), (\d+) remaining after simplification", o)
    if m:
        res.vccs, res.vccs_remaining = int(m.group(1)), int(m.group(2))


def run_query(q, keep=False):
    res = Result(q)
    t0 = time.time()
    if q.kind == "py":
        try:
            q.pyfunc(q, res)
        except Exception as e:  # encoder crash = broken, never a pass
            import traceback
            res.status = "BROKEN"
            res.reason = "exception: %r\n%s" % (e, traceback.format_exc()[-2000:])
        res.wall = time.time() - t0
        return res
    wd = os.path.join(os.environ.get("VERIF_SCRATCH", "/tmp"), "verif-%d-%s-%s" % (
        os.getpid(), re.sub(r"\W", "_", q.name), hashlib.sha1(q.name.encode()).hexdigest()[:6]))
    shutil.rmtree(wd, ignore_errors=True)
    os.makedirs(wd)
    try:
        gb = build(q, wd, res)
        if gb is None:
            return res
        fns = list_functions(gb, q, wd)
        if fns is None:
            res.reason = "function listing failed"
            return res
        res.functions = [f for f in fns if f.startswith("secp256k1_") or f.startswith("STUB_") or f.startswith("nonce_function")]
        bad = [f for f in fns if f in MUST_ABSTRACT and f not in q.allow]
        if bad:
            res.reason = "abstraction incomplete: kernel(s) reachable: " + ",".join(bad)
            return res
        out = os.path.join(wd, "cbmc.out")
        rc, o, wall, rss = run(cbmc_cmd(q, gb), wd, q.timeout, mem_gb=q.mem_gb, out=out)
        res.rss_mb = rss
        res.log = o[-6000:]
        parse_cbmc(o, res)
        if rc == -9:
            res.reason = "timeout after %ds" % q.timeout
            return res
        if not res.props or ("VERIFICATION SUCCESSFUL" not in o and "VERIFICATION FAILED" not in o):
            res.reason = "cbmc gave no verdict (rc=%s): %s" % (rc, o[-1500:])
            return res
        unwind_fail = [k for k, (d, s) in res.props.items() if ".unwind." in k and s != "SUCCESS"]
        wit = {k: v for k, v in res.props.items() if v[0].startswith("witness")}
        viol0 = [(k, d) for k, (d, s) in res.props.items() if s != "SUCCESS" and k not in wit and ".unwind." not in k]
        if unwind_fail and not viol0:
            # SUCCESS verdicts mean nothing beyond the bound; a FAILURE found inside the bound is still a real counterexample
            res.reason = "unwinding assertion failed: " + ",".join(unwind_fail[:5])
            return res
        wit_unreached = [k for k, (d, s) in wit.items() if s != "FAILURE"]
        viol = [(k, d) for k, (d, s) in res.props.items()
                if s != "SUCCESS" and k not in wit and ".unwind." not in k]
        res.witness_ok = [d for k, (d, s) in wit.items() if s == "FAILURE"]
        if viol:
            res.status = "VIOLATION"
            res.violations = viol
            # trace for the first violated assertions (user assertions first)
            viol_sorted = sorted(viol, key=lambda kv: (".assertion." not in kv[0], kv[0]))
            for k, d in viol_sorted[:2]:
                tr = os.path.join(wd, "trace.out")
                q2cmd = cbmc_cmd(q, gb, ["--property", k, "--trace"])
                run(q2cmd, wd, q.timeout, mem_gb=q.mem_gb, out=tr)
                res.replays.append((k, d, open(tr, errors="replace").read() if os.path.exists(tr) else ""))
            return res
        if wit_unreached:
            res.reason = "vacuity: witness not reachable: " + "; ".join(wit[k][0] for k in wit_unreached)
            return res
        res.status = "PASS"
        return res
    finally:
        res.wall = time.time() - t0
        if not keep:
            shutil.rmtree(wd, ignore_errors=True)


class MemPool:
    def __init__(self, total_gb):
        self.total = total_gb
        self.used = 0
        self.cv = threading.Condition()

    def acquire(self, gb):
        gb = min(gb, self.total)
        with self.cv:
            while self.used + gb > self.total:
                self.cv.wait()
            self.used += gb
        return gb

    def release(self, gb):
        with self.cv:
            self.used -= gb
            self.cv.notify_all()


def run_all(queries, jobs=16, mem_total=52, progress=True):
    pool = MemPool(mem_total)
    results = []
    lock = threading.Lock()

    def work(q):
        gb = pool.acquire(q.mem_gb)
        try:
            r = run_query(q)
        finally:
            pool.release(gb)
        with lock:
            if progress:
                sys.stderr.write("  [%s] %-40s %7.1fs (solver %.1fs, %d MB) %s\n" % (
                    r.status, q.name, r.wall, r.solver_s, r.rss_mb, r.reason[:300]))
                sys.stderr.flush()
        return r

    # longest first
    qs = sorted(queries, key=lambda q: -q.timeout)
    with ThreadPoolExecutor(max_workers=jobs) as ex:
        results = list(ex.map(work, qs))
    return results


def load_known_findings():
    out = []
    p = os.path.join(VERIF, "known-findings.txt")
    if os.path.exists(p):
        for line in open(p):
            line = line.strip()
            if line.startswith("finding:"):
                d = dict(re.findall(r"(\w+)=(\"[^\"]*\"|\S+)", line))
                d = {k: v.strip('"') for k, v in d.items()}
                d["_line"] = line
                out.append(d)
    return out


def finding_matches(f, prop, qname, pdesc):
    return (f.get("property") == prop and f.get("query") == qname and f.get("assertion", "") in pdesc)


def concrete_replay(q, cfile, expect):
    """compile a concrete program against the REAL, unstubbed library code of the tree under test and run it"""
    wd = os.path.join(os.environ.get("VERIF_SCRATCH", "/tmp"), "verif-replay-%d" % os.getpid())
    shutil.rmtree(wd, ignore_errors=True)
    os.makedirs(wd)
    try:
        exe = os.path.join(wd, "replay")
        src = os.path.join(VERIF, "harness", cfile)
        cmd = ["gcc", "-O1", "-w", "-DECMULT_WINDOW_SIZE=15", "-DCOMB_BLOCKS=43", "-DCOMB_TEETH=6"] + include_args() + [src, os.path.join(REPO, "src", "precomputed_ecmult.c"),
                                                    os.path.join(REPO, "src", "precomputed_ecmult_gen.c"), "-o", exe]
        rc, o, _, _ = run(cmd, wd, 300, mem_gb=8)
        if rc != 0:
            return None, "replay build failed: " + o[-1500:]
        rc, o, _, _ = run([exe], wd, 120, mem_gb=4)
        return (expect in o), o[-1500:]
    finally:
        shutil.rmtree(wd, ignore_errors=True)


def filter_trace(t):
    """keep the states of harness / stub functions (inputs, stub results, outputs); library-internal states are dropped"""
    blocks = re.split(r"\n(?=State \d+ )", t)
    out = [blocks[0][:2000]]
    kept = 0
    for b in blocks[1:]:
        m = re.match(r"State \d+ file (\S+) function (\w+)", b)
        if m and (m.group(2).startswith("harness_") or m.group(2).startswith("STUB_") or "/verif/harness" in m.group(1)):
            if len(b) > 1500:
                b = b[:1500] + " ...\n"
            out.append(b)
            kept += 1
            if kept > 3000:
                out.append("... (trace truncated)")
                break
    tail = t[t.rfind("Violated property"):] if "Violated property" in t else ""
    return "\n".join(out) + "\n" + tail[:3000]


def write_replay(prop, q, k, d, trace):
    os.makedirs(os.path.join(VERIF, "replay"), exist_ok=True)
    h = hashlib.sha1((q.name + k).encode()).hexdigest()[:8]
    path = os.path.join(VERIF, "replay", "%s-%s-%s.txt" % (prop, re.sub(r"\W", "_", q.name), h))
    with open(path, "w") as f:
        f.write("property: %s\nquery: %s\nharness: harness/%s :: %s\nfailed assertion: [%s] %s\n" % (prop, q.name, q.src, q.func, k, d))
        f.write("defines: %s\nre-run: ./check %s --only %s --trace\n\n" % (" ".join(q.defs), prop, q.name))
        f.write("---- counterexample (solver assignment, cbmc --trace) ----\n")
        # keep the state assignments; drop the preamble
        i = trace.find("Trace for")
        f.write(filter_trace(trace[i:]) if i >= 0 else trace[-20000:])
    return path


def finish(prop, tier, seed, results, level_text, assumptions, t0, extra_cov=None):
    """print verdict lines, write evidence, return exit code"""
    known = load_known_findings()
    violations = 0
    broken = 0
    samples = []
    n_props = 0
    n_ok = 0
    n_wit = 0
    solver_s = 0.0
    funcs = set()
    stubs = set()
    qinfo = []
    for r in results:
        q = r.q
        solver_s += r.solver_s
        funcs.update(r.functions)
        stubs.update(r.stubs)
        np_ = len([1 for k, (d, s) in r.props.items() if not d.startswith("witness")]) + r.extra.get("obligations", 0)
        no_ = len([1 for k, (d, s) in r.props.items() if not d.startswith("witness") and s == "SUCCESS"]) + r.extra.get("discharged", 0)
        n_props += np_
        n_ok += no_
        n_wit += len(r.witness_ok)
        qinfo.append({"query": q.name, "status": r.status, "harness": q.src + "::" + q.func if q.src else q.name,
                      "desc": q.desc, "bounds": q.bounds or ("unwind %s %s" % (q.unwind, ",".join(q.unwindset))),
                      "solver": q.solver, "wall_s": round(r.wall, 1), "solver_s": round(r.solver_s, 1),
                      "symex_s": round(r.symex_s, 1), "peak_rss_mb": r.rss_mb, "properties": np_, "proved": no_,
                      "vccs": r.vccs, "vccs_after_simplification": r.vccs_remaining,
                      "witnesses_reached": r.witness_ok, "reason": r.reason[:500]})
        if r.status == "VIOLATION":
            unknown = []
            for (k, d) in r.violations:
                m = [f for f in known if finding_matches(f, prop, q.name, d)]
                if m:
                    print("KNOWN-FINDING: property=%s %s" % (prop, m[0].get("what", m[0]["_line"])))
                else:
                    unknown.append((k, d))
            gap = False
            for (k, d) in list(unknown):
                for (sub, cfile, expect) in q.concrete:
                    if sub in d:
                        ok, out = concrete_replay(q, cfile, expect)
                        if ok:
                            print("  concrete replay against the real library reproduces: %s" % out.strip().splitlines()[-1])
                            print("  violated: query=%s [%s] %s" % (q.name, k, d))
                            print("VIOLATION property=%s replay=%s" % (prop, os.path.join(VERIF, "harness", cfile)))
                            violations += 1
                        else:
                            print("MODEL-GAP: property=%s query=%s counterexample for '%s' does not reproduce on the real code: %s" % (prop, q.name, d, out))
                            gap = True
                        unknown.remove((k, d))
                        break
            if gap:
                broken += 1
            if unknown:
                violations += 1
                rp = None
                for (k, d, tr) in r.replays:
                    if (k, d) in unknown:
                        rp = write_replay(prop, q, k, d, tr)
                        break
                if rp is None:
                    k, d = unknown[0]
                    rp = write_replay(prop, q, k, d, r.log)
                for (k, d) in unknown[:8]:
                    print("  violated: query=%s [%s] %s" % (q.name, k, d))
                print("VIOLATION property=%s replay=%s" % (prop, rp))
        elif r.status != "PASS":
            broken += 1
            print("BROKEN: property=%s query=%s %s" % (prop, q.name, r.reason[:1500]))
    for r in results[:]:
        asserts = [d for k, (d, s) in r.props.items() if ".assertion." in k and not d.startswith("witness")]
        asserts = sorted(set(asserts))[:6]
        if asserts or r.extra.get("samples"):
            samples.append({"query": r.q.name, "harness": r.q.src, "obligations": asserts or r.extra.get("samples")})
    if not samples:
        samples = [{"query": r.q.name, "harness": r.q.src, "obligations": [r.q.desc or r.q.name]} for r in results[:6]]
    cov = {
        "evaluations": len(results),
        "distinct_nontrivial": n_ok,
        "rule": "evaluations = solver queries (one CBMC symbolic execution + SAT run, or one z3 batch, each regenerated from /repo); "
                "distinct_nontrivial = assertions / safety properties proved by the solver over all inputs inside the stated bounds "
                "(witness properties not counted)",
        "obligations": n_props, "discharged": n_ok, "witnesses_reached": n_wit,
        "samples": samples[:12],
        "queries": qinfo,
        "functions_encoded": sorted(funcs)[:400], "functions_encoded_count": len(funcs),
        "stubs_installed": sorted(stubs),
        "solver_s": round(solver_s, 1),
        "explanation": level_text,
        "exhaustive": False,
    }
    if extra_cov:
        cov.update(extra_cov)
    ev = {"property_id": prop, "tier": tier, "seed": seed, "level": "model_checking", "coverage": cov,
          "assumptions": assumptions, "wall_s": round(time.time() - t0, 1), "violations": violations}
    evdir = os.environ.get("VERIF_EVIDENCE_DIR", os.path.join(VERIF, "evidence"))
    os.makedirs(evdir, exist_ok=True)
    with open(os.path.join(evdir, prop + ".json"), "w") as f:
        json.dump(ev, f, indent=1)
    print("%s tier=%s queries=%d proved=%d/%d witnesses=%d violations=%d broken=%d wall=%.0fs" % (
        prop, tier, len(results), n_ok, n_props, n_wit, violations, broken, time.time() - t0))
    if violations:
        return 1
    if broken:
        return 2
    return 0
