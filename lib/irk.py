"""Engine K: straight-line LLVM IR (clang -O1 of the REAL kernel) -> z3 integer encoding.
Values are kept as concatenations of bit segments so that every cut of a value reuses the same atoms; each product of two
limbs is an opaque integer atom P(a,b) with only the bound a*b <= max(a)*max(b) as axiom, which makes the proof obligation
(congruence of the output limbs with the schoolbook sum of the atoms) linear.  Every add/mul/shl that could wrap its
machine width becomes its own no-wrap obligation."""
import re, sys, time
from z3 import *
def parse(fn, ll):
    txt = open(ll).read()
    m = re.search(r'define [^@]*@%s\((.*?)\)[^{]*\{(.*?)\n\}' % re.escape(fn), txt, re.S)
    args = [a.strip().split()[-1] for a in m.group(1).split(',')]
    return args, [l.strip() for l in m.group(2).split('\n') if l.strip()]
ZERO = IntVal(0)
class Enc:
    def __init__(s, in_bits):
        s.S = Solver(); s.S.set("timeout", 20000); s.env = {}; s.mem = {}; s.ptr = {}; s.atoms = {}; s.oblig = []; s.in_bits = in_bits; s.fresh = 0; s.src = {}; s.cuts = {}
    # a value is (segs, hi) : segs = [(term, width)] low->high, every term in [0, 2^width); hi = upper bound of the value
    def term(s, v):
        segs, _ = v; off = 0; t = ZERO; first = True
        for (x, w) in segs:
            if not (is_int_value(x) and x.as_long() == 0):
                t = x * 2**off if first else t + x * 2**off; first = False
            off += w
        return t
    def const(s, c, w): return ([(IntVal(c), max(1, c.bit_length()))], c)
    def val(s, tok, w):
        return s.env[tok] if tok.startswith('%') else s.const(int(tok), w)
    def general(s, t, hi): return ([(t, max(1, hi.bit_length()))], hi)
    def peel_val(s, v):
        """value == k * atom: strips a constant shift (leading zero segments) and a constant factor"""
        segs = [(x, w) for (x, w) in s.refine(v[0])]; k = 1
        while len(segs) > 1 and is_int_value(segs[0][0]) and segs[0][0].as_long() == 0:
            k <<= segs[0][1]; segs = segs[1:]
        while len(segs) > 1 and is_int_value(segs[-1][0]) and segs[-1][0].as_long() == 0:
            segs = segs[:-1]
        assert len(segs) == 1, 'product of two composite values'
        k2, t = s.peel(segs[0][0])
        return k * k2, t
    def peel(s, t):
        """t == k * base with k a positive integer constant (e.g. a[0]*2 in the squaring kernel)"""
        if is_mul(t) and t.num_args() == 2:
            a, b = t.arg(0), t.arg(1)
            if is_int_value(a): return a.as_long(), b
            if is_int_value(b): return b.as_long(), a
        return 1, t
    def cut_atom(s, x, w, k):
        """x in [0,2^w): x = hi*2^k + lo"""
        if is_int_value(x): v = x.as_long(); return IntVal(v % 2**k), IntVal(v >> k)
        d = s.cuts.setdefault(x.get_id(), {})
        if k in d: return d[k]
        assert not d, 'second cut of one atom at another position: refine segments instead'
        s.fresh += 1; lo = Int(f'lo{s.fresh}'); hi = Int(f'hi{s.fresh}')
        s.S.add(x == hi * 2**k + lo, lo >= 0, lo < 2**k, hi >= 0, hi < 2**(w - k))
        d[k] = (lo, hi); d['segs'] = [(lo, k), (hi, w - k)]
        return lo, hi
    def refine(s, segs):
        """replace atoms that were already cut by their pieces, so that every value sees the same atoms"""
        out = []
        for (x, w) in segs:
            d = s.cuts.get(x.get_id()) if not is_int_value(x) else None
            out += s.refine(d['segs']) if d else [(x, w)]
        return out
    def cut(s, v, k):
        segs, hi = v; segs = s.refine(segs); lo_s, hi_s, off = [], [], 0
        for (x, w) in segs:
            if off + w <= k: lo_s.append((x, w))
            elif off >= k: hi_s.append((x, w))
            else:
                l, h = s.cut_atom(x, w, k - off); lo_s.append((l, k - off)); hi_s.append((h, w - (k - off)))
            off += w
        if off < k: lo_s.append((ZERO, k - off))
        return (lo_s or [(ZERO, 1)], min(hi, 2**k - 1)), (hi_s or [(ZERO, 1)], hi >> k)
    def load(s, p):
        base, off = s.ptr[p]
        if (base, off) not in s.mem:
            b = s.in_bits[base][off]; v = Int(f'{base}_{off}'); s.S.add(v >= 0, v < 2**b)
            s.mem[(base, off)] = ([(v, b)], 2**b - 1); s.src[v.get_id()] = (base, off)
        return s.mem[(base, off)]
    def run(s, args, body):
        for a in args: s.ptr[a] = (a, 0)
        for l in body:
            l = re.sub(r', ![a-z.]+ ![0-9]+', '', l); l = re.sub(r', align \d+', '', l)
            if l.startswith('call void @llvm.experimental') or l.startswith('ret'): continue
            m = re.match(r'(%\d+) = getelementptr inbounds i64, i64\* (%\d+), i64 (\d+)', l)
            if m: b, o = s.ptr[m.group(2)]; s.ptr[m.group(1)] = (b, o + int(m.group(3))); continue
            m = re.match(r'(%\d+) = load i64, i64\* (%\d+)', l)
            if m: s.env[m.group(1)] = s.load(m.group(2)); continue
            m = re.match(r'store i64 (%\d+), i64\* (%\d+)', l)
            if m: s.mem[('OUT',) + s.ptr[m.group(2)]] = s.env[m.group(1)]; continue
            m = re.match(r'(%\d+) = icmp ult i(\d+) (\S+), (\S+)', l)
            if m:
                d, w, a, b = m.groups(); va, vb = s.val(a, int(w)), s.val(b, int(w))
                cy = getattr(s, 'carry', {}).get(va[0][0][0].get_id()) if len(va[0]) == 1 else None
                if cy and s.term(vb).get_id() in cy[1]:
                    s.env[d] = (cy[0][0], 1); continue        # (a+b mod 2^w) < b  <=>  carry out of a+b
                s.fresh += 1; c = Int(f'c{s.fresh}'); s.S.add(c >= 0, c <= 1, (c == 1) == (s.term(va) < s.term(vb)))
                s.env[d] = ([(c, 1)], 1); s.generic_icmp = getattr(s, 'generic_icmp', 0) + 1; continue
            m = re.match(r'(%\d+) = (zext|trunc) i(\d+) (\S+) to i(\d+)', l)
            if m:
                d, op, w0, a, w1 = m.groups(); v = s.val(a, int(w0)); w1 = int(w1)
                s.env[d] = v if (op == 'zext' or v[1] < 2**w1) else s.cut(v, w1)[0]; continue
            m = re.match(r'(%\d+) = (add|mul|lshr|shl|and|or)(?: nuw| nsw)* i(\d+) (\S+), (\S+)', l)
            if not m: raise SystemExit('unhandled: ' + l)
            d, op, w, a, b = m.groups(); w = int(w)
            va, vb = s.val(a, w), s.val(b, w); cb = not b.startswith('%'); ca = not a.startswith('%')
            if op == 'add':
                r = s.general(s.term(va) + s.term(vb), va[1] + vb[1])
            elif op == 'mul':
                if ca or cb: r = s.general(s.term(va) * s.term(vb), va[1] * vb[1])
                else:
                    (ka, ta), (kb, tb) = s.peel_val(va), s.peel_val(vb); key = tuple(sorted((ta.get_id(), tb.get_id())))
                    if key not in s.atoms:
                        ha, hb = va[1] // ka, vb[1] // kb
                        p = Int(f'P{len(s.atoms)}'); s.S.add(p >= 0, p <= ha * hb); s.atoms[key] = (p, ta, tb)
                    r = s.general(s.atoms[key][0] * (ka * kb) if ka * kb != 1 else s.atoms[key][0], va[1] * vb[1])
            elif op == 'lshr':
                assert cb; r = s.cut(va, int(b))[1]
            elif op == 'shl':
                assert cb; k = int(b); r = ([(ZERO, k)] + s.refine(va[0]), va[1] << k)
                if r[1] >= 2**w: r = s.cut(r, w)[0]
            elif op == 'and':
                assert cb; c = int(b); lowz = (c & -c).bit_length() - 1; cc = c >> lowz
                assert cc & (cc + 1) == 0, 'mask must be contiguous'
                mid = s.cut(s.cut(va, lowz + cc.bit_length())[0], lowz)[1]
                r = ([(ZERO, lowz)] + mid[0], mid[1] << lowz) if lowz else mid
            elif op == 'or':
                # structural disjointness: lay both over the same bit grid, one of the two must be constant 0 everywhere
                sa, sb = s.refine(va[0]), s.refine(vb[0]); out = []; 
                def bits(segs):
                    o = []; 
                    for (x, ww) in segs: o += [(x, ww, i) for i in range(ww)]
                    return o
                ba, bb = bits(sa), bits(sb); n = max(len(ba), len(bb)); z = (ZERO, 1, 0)
                ba += [z] * (n - len(ba)); bb += [z] * (n - len(bb)); i = 0
                while i < n:
                    xa, xb = ba[i], bb[i]; za = is_int_value(xa[0]) and xa[0].as_long() == 0; zb = is_int_value(xb[0]) and xb[0].as_long() == 0
                    assert za or zb, 'or of overlapping bits'
                    pick = xb if za else xa
                    assert pick[2] == 0 or (out and False) or za and zb or pick[2] == 0, 'or splits a segment'
                    out.append((pick[0], pick[1])); 
                    # the whole segment must be covered by zeros on the other side
                    other = ba if za else bb
                    for j in range(i, i + pick[1]):
                        oj = other[j]; assert is_int_value(oj[0]) and oj[0].as_long() == 0, 'or of overlapping bits'
                    i += pick[1]
                r = (out, va[1] + vb[1])
            if r[1] >= 2**w:
                if getattr(s, 'wrap_ok', False) and op == 'add':
                    lo_, hi_ = s.cut(r, w); r = lo_
                    if not hasattr(s, 'carry'): s.carry = {}
                    if len(lo_[0]) == 1: s.carry[lo_[0][0][0].get_id()] = (hi_, {s.term(va).get_id(), s.term(vb).get_id()})
                else: s.oblig.append(('no-wrap', l, s.term(r) < 2**w))
            s.env[d] = r
        return s


def compile_ir(src, out, repo):
    import subprocess
    r = subprocess.run(["clang-14", "-O1", "-fno-vectorize", "-fno-slp-vectorize", "-fno-unroll-loops", "-S", "-emit-llvm", "-I" + repo + "/src", src, "-o", out],
                       capture_output=True, text=True)
    if r.returncode != 0:
        raise RuntimeError("clang failed: " + r.stderr[-2000:])


def _cvc5(smt2, tlimit=60):
    import subprocess, tempfile, os
    f = tempfile.NamedTemporaryFile('w', suffix='.smt2', delete=False); f.write('(set-logic QF_LIA)\n' + smt2); f.close()
    try:
        r = subprocess.run(['cvc5', '--tlimit=%d' % (tlimit * 1000), f.name], capture_output=True, text=True, timeout=tlimit + 10)
        o = (r.stdout + r.stderr)
        if '(error' in o: return 'error'
        return o.strip().splitlines()[-1] if o.strip() else 'unknown'
    except Exception:
        return 'unknown'
    finally:
        os.unlink(f.name)


def _check(e, name, claim, results, cross=False):
    """refute `claim` (unsat = obligation discharged); z3 with three seeds, then cvc5; cross=True also diffs cvc5 against z3"""
    t0 = time.time(); verdict = 'unknown'; e.S.push(); e.S.add(claim)
    for seed in (0, 7, 23):
        e.S.set('random_seed', seed); r = str(e.S.check())
        if r in ('sat', 'unsat'): verdict = r; break
    other = None
    if verdict == 'unknown' or cross:
        other = _cvc5(e.S.to_smt2())
        if verdict == 'unknown' and other in ('sat', 'unsat'): verdict = other
        elif cross and other in ('sat', 'unsat') and other != verdict: verdict = 'solver-disagreement'
    model = None
    if verdict == 'sat':
        try:
            m = e.S.model(); model = {str(d): str(m[d]) for d in m.decls() if str(d).startswith('%') or str(d)[0] in 'ab'}
        except Exception:
            model = None
    e.S.pop()
    results.append((name, verdict, round(time.time() - t0, 3), model, other))
    return verdict


def prove_fe_mul(ll, fn, nargs):
    """fe_mul_inner / fe_sqr_inner (5x52): r == a*b (mod p), output limb bounds, no-wrap of every machine operation"""
    args, body = parse(fn, ll); res = []
    inb = [56, 56, 56, 56, 52]          # magnitude-8 inputs as documented in field_5x52_int128_impl.h
    bits = {a: inb for a in args[1:]}
    e = Enc(bits).run(args, body); p = 2**256 - 0x1000003D1
    r_ = args[0]; a_ = args[1]; b_ = args[2] if nargs == 3 else args[1]
    out = [e.mem[('OUT', r_, i)] for i in range(5)]
    V = sum(e.term(out[i]) * 2**(52*i) for i in range(5)); T = 0; seen = {}
    for key, (pv, ta, tb) in e.atoms.items():
        (ba, i), (bb, j) = e.src[ta.get_id()], e.src[tb.get_id()]
        if nargs == 3:
            assert {ba, bb} == {a_, b_}, 'atom mixes unexpected operands'
            ij = (i, j) if ba == a_ else (j, i); seen[ij] = pv
        else:
            seen[(min(i, j), max(i, j))] = pv
    if nargs == 3:
        assert len(seen) == 25, sorted(seen)
        T = sum(pv * 2**(52*(i+j)) for (i, j), pv in seen.items())
    else:
        assert len(seen) == 15, sorted(seen)
        T = sum(pv * 2**(52*(i+j)) * (1 if i == j else 2) for (i, j), pv in seen.items())
    for kind, l, ob in e.oblig:
        _check(e, 'no-wrap: ' + l[:60], Not(ob), res)
    k = Int('k'); rem = Int('rem')
    _check(e, 'output congruent to the schoolbook product mod p', And(V - T == k*p + rem, rem > 0, rem < p, k > -2**300, k < 2**300), res, cross=True)
    for i, bnd in enumerate([52, 52, 52, 52, 49]):
        _check(e, 'r[%d] < 2^%d' % (i, bnd), e.term(out[i]) >= 2**bnd, res)
    return res, {'constraints': len(e.S.assertions()), 'cuts': e.fresh, 'product_atoms': len(e.atoms), 'instructions': len(body)}


def prove_scalar_mul_512(ll, fn):
    args, body = parse(fn, ll); r_, a_, b_ = args; res = []
    e = Enc({a_: [64]*4, b_: [64]*4}); e.wrap_ok = True; e.run(args, body)
    out = [e.mem[('OUT', r_, i)] for i in range(8)]
    V = sum(e.term(out[i]) * 2**(64*i) for i in range(8)); T = 0; seen = set()
    for key, (pv, ta, tb) in e.atoms.items():
        (ba, i), (bb, j) = e.src[ta.get_id()], e.src[tb.get_id()]; seen.add((i, j) if ba == a_ else (j, i)); T = T + pv * 2**(64*(i+j))
    assert len(seen) == 16, seen
    for kind, l, ob in e.oblig:
        _check(e, 'no-wrap: ' + l[:60], Not(ob), res)
    _check(e, 'l[0..8) == a*b as a 512-bit integer', V != T, res, cross=True)
    return res, {'constraints': len(e.S.assertions()), 'cuts_and_carries': e.fresh, 'product_atoms': len(e.atoms), 'instructions': len(body), 'generic_icmp': getattr(e, 'generic_icmp', 0)}
