from engine import Query
S = "C01/h_c01.c"
QUERIES = [
    Query("verify_realwidth", S, "harness_verify", unwind=66, timeout=900,
          desc="secp256k1_ecdsa_verify == reference predicate for all r,s < n, all 32-byte messages, every pubkey object, every curve result x(R) < p",
          bounds="fixed-size objects; all loops complete"),
    Query("sign_realwidth", S, "harness_sign", unwind=120, unwindset=["secp256k1_ecdsa_sign_inner.0:3", "nonce_function_rfc6979_impl.0:3"], timeout=900,
          desc="secp256k1_ecdsa_sign: failure masking, RFC 6979 key material (msg mod n), s = low-S(k^-1(m+rd)), r = x(kG) mod n, custom and default nonce paths",
          bounds="nonce retry loop bounded to 2 attempts by assumption inside the nonce source"),
    Query("sign_recoverable", S, "harness_sign_recoverable", unwind=120, unwindset=["secp256k1_ecdsa_sign_inner.0:3", "nonce_function_rfc6979_impl.0:3"], timeout=900,
          desc="secp256k1_ecdsa_sign_recoverable (module not compiled in the pinned build): masking and recovery id formula",
          bounds="<= 2 nonce attempts"),
    Query("recover_realwidth", S, "harness_recover", defs=["RECOVER"], unwind=66, timeout=900,
          desc="secp256k1_ecdsa_sig_recover for all r, s, m < n and recid 0..3: failure set (zero r/s, r >= p-n with recid bit 1, off-curve x, infinite result), x = r (+ n), parity, Q = r^-1 (s R - m G) handed to the curve layer",
          bounds="fixed-size objects"),
]
_t = Query("t_sign_verify_order13", "T/h_t.c", "harness_ecdsa", defs=["T_ECDSA"], unwind=140, unwindset=["secp256k1_ecdsa_sign_inner.0:4"], timeout=3000, mem_gb=8, allow=["secp256k1_scalar_inverse", "secp256k1_scalar_inverse_var"],
           desc="engine T (order-13 subgroup, table model generated and validated from the real code at check time): pubkey_create -> ecdsa_sign (arbitrary, possibly failing nonce function, <= 3 attempts) -> ecdsa_verify accepts; failed signing leaves a zero signature",
           bounds="group order 13; two symbolic low key bytes, all message bytes, <= 3 nonce attempts")
_t.gen_table = 13
QUERIES.append(_t)
LEVEL_TEXT = ("Bounded model checking of the real ECDSA verify/sign code at real width: curve results are free 256-bit values and scalar mul/inverse are uninterpreted functions, "
              "so the verdict covers every boundary (s=(n+-1)/2, r>=p-n, msg>=n, key 0/>=n) and every kernel behaviour.")
ASSUMPTIONS = ["that ecmult/ecmult_gen compute the group operation is C05's subject; here their result is a free point (z = 1)",
               "scalar mul/inverse are uninterpreted functions (consistency only); field kernels opaque but exact on operand 1",
               "signature objects have r,s < n and pubkey objects canonical coordinates (what the parsers produce)",
               "nonce retry loop: at most 2 attempts explored (later attempts execute the same loop body)"]

MANIFEST_ENTRY = {
    "text": "Engine T: in the order-13 group of the repository's exhaustive-test configuration (group layer = index arithmetic over a table generated and validated from the real code at check time, arbitrary nonce function) every signature ecdsa_sign creates is accepted by ecdsa_verify. Bounded model checking of the real ECDSA verify/sign/sign_recoverable code at real width with curve results as free values and scalar mul/inverse uninterpreted: verify == reference predicate for ALL (r, s, msg, key, x(R)) incl. s=(n+-1)/2 and r>=p-n; sign: failure masking, RFC 6979 key material uses msg mod n, s/r/recid formulas, nonce hand-over, for all keys/messages incl. >= n.",
    "note": "Not covered: that ecmult/ecmult_gen compute the group law (C05, not encodable), end-to-end sign=>verify only in the order-13 group of engine T; retry loop bounded to 2 nonce attempts; 64-bit limb configuration only. Trusted: CBMC/kissat, stubs.",
}
