from engine import Query
S = "C02/h_c02.c"
QUERIES = []
for ml, tier in ((32, "quick"), (0, "quick"), (33, "quick"), (301, "quick"), (64, "thorough"), (119, "thorough"), (120, "thorough"), (1001, "thorough")):
    QUERIES.append(Query("verify_len%d" % ml, S, "harness_verify", defs=["MSGLEN=%d" % ml], unwind=max(66, ml + 140), timeout=900, tier=tier,
                         desc="schnorrsig_verify == BIP-340 Verify structure for all 64-byte signatures, all %d-byte messages, every key object, every curve result" % ml,
                         bounds="message length %d (class), contents symbolic" % ml))
    for mode in (0, 1, 2, 3):
        if mode == 0 and ml != 32:
            continue
        if tier == "thorough" and mode in (1,):
            continue
        QUERIES.append(Query("sign_len%d_mode%d" % (ml, mode), S, "harness_sign", defs=["MSGLEN=%d" % ml, "MODE=%d" % mode], unwind=max(66, ml + 140), timeout=(2400 if ml > 500 else 1200), tier=tier, mem_gb=(16 if ml > 500 else 3),
                             desc="BIP-340 Sign structure, entry mode %d (0 sign32, 1 sign_custom(NULL), 2 sign_custom(default fn/ndata), 3 custom nonce fn): nonce derivation layout, aux NULL == zero aux, negations, failure masking; %d-byte messages" % (mode, ml),
                             bounds="message length %d (class), contents symbolic" % ml))
for q in QUERIES:
    if q.func == "harness_sign":
        q.unreachable = ["secp256k1_ecmult_strauss_batch", "secp256k1_ecmult_pippenger_batch"]   # 8-argument functions CBMC lists as candidates for the nonce function pointer
QUERIES.append(Query("extraparams_magic", S, "harness_magic", unwind=66, timeout=600, desc="sign_custom rejects every wrong extraparams magic"))
_t = Query("t_sign_verify_order13", "T/h_t.c", "harness_schnorr", defs=["T_SCHNORR"], unwind=140, timeout=1800, mem_gb=8, allow=["secp256k1_scalar_inverse", "secp256k1_scalar_inverse_var"],
           desc="engine T (order-13 subgroup of the repository's exhaustive-test configuration, group layer = index arithmetic over a table generated and validated from the real code at check time, compression function uninterpreted): keypair_create -> schnorrsig_sign32 -> keypair_xonly_pub -> schnorrsig_verify accepts, for all 96 input bytes",
           bounds="group order 13; all key / message / aux bytes")
_t.gen_table = 13
QUERIES.append(_t)
LEVEL_TEXT = ("Bounded model checking of the real schnorrsig module at real width against a reference written from BIP-340, with the SHA-256 compression function and scalar multiplication "
              "uninterpreted and curve results free: decides byte layout of both tagged hashes for each message-length class, range checks, parity negations, aux handling and failure masking for all inputs.")
ASSUMPTIONS = ["ecmult / ecmult_gen results are free points (group law is C05's subject)", "SHA-256 compression uninterpreted (holds for every compression function); tag midstates are compared with from-scratch tagged hashing in C05's concrete midstate query",
               "message lengths: the listed classes only (block-boundary classes); other lengths rest on the sha256_write induction of C05",
               "x-only / keypair objects have canonical coordinates (what the library stores)"]

MANIFEST_ENTRY = {
    "text": "Engine T: in the order-13 group (table model generated and validated from the real code at check time, uninterpreted compression function) keypair_create -> sign32 -> verify accepts for all input bytes. Bounded model checking of the real schnorrsig module at real width against a reference written from BIP-340 (own FIPS padding model, uninterpreted compression shared with the library code, free curve results, uninterpreted scalar mul): verify == BIP-340 Verify structure for all 64-byte signatures incl. r>=p, s>=n, odd/infinite R; sign == BIP-340 Sign byte layout (aux masking, NULL aux == zero aux, tagged nonce and challenge hashes, parity negations, masking on failure) for message-length classes 0,32,33,301 (thorough: more, up to 1001).",
    "note": "Not covered: group-law correctness of ecmult/ecmult_gen; tag midstate constants are compared with from-scratch tagged hashing only in C05's concrete midstate query; message lengths outside the listed classes rest on C05's sha256_write induction; 64-bit limbs only. Trusted: CBMC/kissat, stubs, the reference in harness/C02 + common/ref_sha.h.",
}
