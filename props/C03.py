from engine import Query

D = "C03/h_der.c"
QUERIES = [
    Query("der_parse_le40", D, "harness_der_parse", defs=["MAXLEN=40"], unwind=76, timeout=900,
          desc="ecdsa_signature_parse_der vs strict-DER reference, zeroing, round trip: ALL byte strings of every length 0..40",
          bounds="input length 0..40 bytes, all contents; loops complete"),
    Query("der_parse_le74", D, "harness_der_parse", defs=["MAXLEN=74"], unwind=76, timeout=2400, tier="thorough",
          desc="same, every length 0..74 (72 = longest in-range signature)", bounds="input length 0..74"),
    Query("der_serialize", D, "harness_der_serialize", unwind=82, timeout=900,
          desc="serialize_der size negotiation for all (r,s) < n and all *outputlen 0..80: reports minimal size, succeeds iff it fits, writes nothing beyond"),
    Query("der_reparse", D, "harness_der_reparse", unwind=82, timeout=900,
          desc="parse_der(serialize_der(sig)) == sig for all (r,s) < n"),
    Query("compact_codec", D, "harness_compact", unwind=66, timeout=600,
          desc="parse_compact / serialize_compact for all 64-byte strings"),
    Query("pubkey_parse", "C03/h_pub.c", "harness_pubkey_parse", unwind=82, timeout=900,
          desc="ec_pubkey_parse for all byte strings of all lengths 0..80 (compressed, uncompressed, hybrid), on-curve predicate opaque+recorded; round trips"),
    Query("pubkey_serialize", "C03/h_pub.c", "harness_pubkey_serialize", unwind=82, timeout=900,
          desc="ec_pubkey_serialize from arbitrary 64-byte pubkey objects, all flags, all buffer lengths 0..80"),
    Query("xonly_codec", "C03/h_pub.c", "harness_xonly", unwind=82, timeout=600,
          desc="xonly_pubkey_parse/serialize for all 32-byte strings"),
]
for fl, tier in ((131, "quick"), (75, "thorough"), (129, "thorough"), (132, "thorough"), (200, "thorough")):
    QUERIES.append(Query("der_parse_fix%d" % fl, D, "harness_der_parse", defs=["MAXLEN=%d" % fl, "FIXLEN=%d" % fl], unwind=fl + 6, timeout=2400, tier=tier, mem_gb=8,
                         desc="DER parser differential vs the strict-DER reference for ALL inputs of exactly %d bytes (long-form 0x81 lengths, integers longer than 32 bytes => accepted with value 0)" % fl, bounds="len = %d" % fl))
LEVEL_TEXT = ("Bit-precise bounded model checking (CBMC + kissat) of the real parsers/serializers for ALL byte strings up to the stated length: "
              "differential against an independently written strict-DER reference, exact failure sets with 320-bit arithmetic oracles, round trips.")
ASSUMPTIONS = ["DER inputs longer than the stated bound are outside the claim (the parser accepts oversize integers as 0, so arbitrarily long accepted inputs exist)",
               "64-bit limb configuration", "on-curve decision (sqrt / y^2==x^3+7) is an opaque predicate: the check shows acceptance requires it, not that it is computed correctly (C05)", "curve facts assumed: no point has x = 0 or y = 0", "contrib/lax_der_parsing.c is not part of the library TU and is not covered"]

MANIFEST_ENTRY = {
    "text": "Bit-precise bounded model checking of the real codecs for ALL byte strings up to the stated lengths: DER parser differential against an independent strict-DER reference (quick: lengths 0..40, thorough: 0..74), zeroing on failure, serializer size negotiation for all (r,s) and buffer lengths, compact codec, pubkey (33/65/hybrid, all lengths 0..80) and x-only codecs with 320-bit range oracles and recorded on-curve predicate.",
    "note": "On-curve decision is an opaque recorded predicate (its arithmetic is C05's subject); DER inputs longer than the bound are outside the claim; the 'zeroed signature never verifies' clause is discharged by C01's verify query (r=0 or s=0 => 0). contrib/lax_der_parsing.c not covered. 64-bit limbs only.",
}
