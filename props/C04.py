from engine import Query
S = "C04/h_c04.c"
def q(name, fn, desc, **kw):
    return Query(name, S, fn, unwind=kw.pop("unwind", 100), timeout=kw.pop("timeout", 900), desc=desc, **kw)
QUERIES = [
    q("seckey_ops", "harness_seckey", "seckey_verify/negate/tweak_add/tweak_mul: exact failure sets and outputs for all 2^512 (key, tweak) pairs incl. tweak == -key, tweak >= n"),
    q("pubkey_create", "harness_pubkey_create", "pubkey_create / keypair_create: invalid-key masking, scalar handed to the fixed-base multiplier, stored object"),
    q("pubkey_negate", "harness_pubkey_negate", "pubkey_negate == (x, p-y) for every key object"),
    q("pubkey_tweak_add", "harness_pubkey_tweak_add", "pubkey_tweak_add: failure set incl. infinity result, P + tG hand-over, output/zeroing"),
    q("pubkey_tweak_mul", "harness_pubkey_tweak_mul", "pubkey_tweak_mul: failure set (zero / >= n tweak), tP hand-over, output/zeroing"),
    q("xonly_taproot", "harness_xonly", "xonly_from_pubkey, xonly_tweak_add, tweak_add_check accepts exactly the produced (x, parity)"),
    q("keypair_taproot", "harness_keypair_tweak", "keypair_xonly_pub and keypair_xonly_tweak_add: parity-dependent secret negation on both sides, failure zeroing"),
    q("keypair_taproot_invalid", "harness_keypair_tweak_invalid", "keypair_xonly_tweak_add on invalid keypair objects: one illegal callback, failure, whole object wiped"),
    q("pubkey_cmp", "harness_cmp", "ec_pubkey_cmp == lexicographic order of compressed encodings for all key-object pairs, invalid keys as zero bytes"),
]
for nk in (1, 2, 3):
    QUERIES.append(q("pubkey_combine_n%d" % nk, "harness_pubkey_combine", "pubkey_combine of %d keys: running sum hand-over, infinity rejection (cancelling lists), zeroing" % nk, defs=["NK=%d" % nk]))
T = "C04/h_sort.c"
for ns, tier in ((0, "quick"), (1, "quick"), (2, "quick"), (3, "quick"), (4, "quick"), (5, "quick"), (6, "thorough")):
    QUERIES.append(Query("hsort_full_n%d" % ns, T, "harness_sort_full", defs=["NS=%d" % ns], unwind=max(12, ns + 3), timeout=2400, tier=tier, mem_gb=(16 if ns >= 6 else 3),
                         desc="real secp256k1_hsort on %d pointer-sized symbolic elements: sorted permutation, nothing beyond n touched" % ns, bounds="n = %d, all element values" % ns))
QUERIES.append(Query("hsort_skeleton_le300", T, "harness_sort_skeleton", defs=["SKMAX=300", "SKELETON"], unwind=305, timeout=900,
                     desc="iteration space of secp256k1_hsort for every count 0..300 with heap_down/heap_swap recorded: exactly the textbook build + extract sequence (catches caps such as 'first 40 keys only')",
                     bounds="count 0..300 symbolic"))
QUERIES.append(Query("pubkey_sort_callsite", T, "harness_sort_callsite", defs=["CALLSITE", "CSMAX=300"], unwind=305, flags=["--max-field-sensitivity-array-size", "400"], timeout=900,
                     desc="ec_pubkey_sort hands all n_pubkeys pointers, pointer stride and the pubkey comparator to hsort; NULL entries rejected", bounds="n 0..300"))
LEVEL_TEXT = ("Bounded model checking of the real key-derivation API at real width: every documented failure case is shown exact for all 256-bit keys/tweaks, and each public operation is shown to hand exactly "
              "the corresponding scalar/point to the curve layer (free results), so secret/public commutation reduces to the group law (C05).")
ASSUMPTIONS = ["curve layer (ecmult, ecmult_gen, gej_add_ge) returns free points; commutation itself then follows from the group law, which is not encoded",
               "pubkey / keypair objects hold canonical coordinates (what the library stores)", "scalar mul uninterpreted", "sorting: full sorted-permutation proof for n <= 5 (thorough 6); for longer lists the iteration skeleton (all counts <= 300) is proved and the sift-down step is the same code as in the small instances: the heapsort invariant argument joining them is reasoning outside the solver"]

MANIFEST_ENTRY = {
    "text": "Bounded model checking of the real key-derivation API at real width: exact failure sets and outputs of seckey/pubkey negate, tweak_add, tweak_mul, create, combine (1..3 keys), x-only conversion, Taproot tweak, tweak_add_check and keypair tweak for all keys/tweaks (incl. tweak=-key, >=n, zero), with the scalar/point handed to the curve layer asserted; pubkey_cmp == lexicographic order; hsort: sorted permutation for n<=5 (thorough 6), iteration skeleton for every count <=300, call site passes the whole list.",
    "note": "Secret/public commutation is reduced to the group law (curve layer returns free points; C05 clauses not encodable); long-list sorting rests on skeleton + small-instance proofs joined by the textbook heapsort invariant (reasoning outside the solver); mixed tweak chains follow by induction from the single-step results. 64-bit limbs only.",
}
