import os, shutil, tempfile, time
from engine import Query, REPO, VERIF

S = "C05/h_c05.c"
QUERIES = [
    Query("fe_normalize_mag32", S, "harness_fe_normalize", defs=["FE_NORM", "MAG=32"], unwind=8, timeout=900,
          desc="fe_normalize / normalize_var / normalize_weak / normalizes_to_zero(_var) vs a mod p on 320-bit vectors, every limb pattern of magnitude <= 32 (5x52)"),
    Query("fe_b32_codec", S, "harness_fe_b32", defs=["FE_B32"], unwind=40, timeout=900,
          desc="fe_set_b32_limit / set_b32_mod / get_b32 / is_odd / is_zero for all 32-byte strings"),
    Query("fe_linear_ops", S, "harness_fe_linear", defs=["FE_LIN"], unwind=8, timeout=900,
          desc="fe_add, negate, mul_int, half, add_int, cmov, to/from_storage, cmp_var for all operands of magnitude 1..8"),
    Query("scalar_linear_ops", S, "harness_scalar_linear", defs=["SC_LIN"], unwind=40, timeout=900,
          desc="scalar_set_b32(+overflow), set_b32_seckey, get_b32, add, negate, is_high, cond_negate, cmov, half, split_128, cadd_bit, predicates (4x64) vs mod-n arithmetic for all 256-bit inputs"),
    Query("sha256_write_step_le200", S, "harness_sha_write", defs=["SHA_WRITE", "MAXLEN=200"], unwind=210, timeout=1500, mem_gb=6,
          desc="sha256_write: one inductive step from an arbitrary hash state, all write lengths 0..200: compression calls get exactly old-tail++data in 64-byte blocks, buffer and byte counter exact",
          bounds="single write <= 200 bytes; messages of any length and any chunking follow by induction over writes"),
    Query("sha256_write_step_le1100", S, "harness_sha_write", defs=["SHA_WRITE", "MAXLEN=1100"], unwind=1110, timeout=3000, mem_gb=12, tier="thorough",
          desc="same, single writes up to 1100 bytes"),
    Query("sha256_finalize_step", S, "harness_sha_finalize", defs=["SHA_WRITE"], unwind=70, timeout=900,
          desc="sha256_finalize from an arbitrary state: FIPS 180-4 padding (0x80, zeros, 64-bit big-endian bit length), one or two blocks"),
    Query("tag_midstates", S, "harness_midstates", defs=["MIDSTATES"], unwind=70, timeout=900, allow=["secp256k1_sha256_transform_impl"],
          desc="all 18 precomputed tagged-hash midstates == tagged-hash initialisation with the REAL compression function; BIP-340 zero-aux mask; SHA-256(abc) known answer (no free variables: constant-folded by CBMC)"),
]
for q in QUERIES:
    if q.func in ("harness_sha_write", "harness_sha_finalize"):
        q.unreachable = ["secp256k1_sha256_transform"]     # same signature as the logging callback: only a spurious function-pointer candidate
for kl, ml in ((32, 33), (64, 0), (65, 1), (0, 55)):
    QUERIES.append(Query("hmac_k%d_m%d" % (kl, ml), S, "harness_hmac", defs=["HMAC", "KLEN=%d" % kl, "MLEN=%d" % ml], unwind=280, timeout=900,
                         desc="HMAC-SHA256 structure (ipad/opad, long-key hashing) == RFC 2104 composition with uninterpreted compression, key %d / message %d bytes" % (kl, ml)))


def _k(name, srcfile, fn, kind, nargs):
    def run(q, res):
        import subprocess, json, sys
        wd = tempfile.mkdtemp(prefix="verif-k-")
        try:
            code = ("import sys, json; sys.path.insert(0, %r); import irk; ll = %r; irk.compile_ir(%r, ll, %r); "
                    "r = irk.prove_fe_mul(ll, %r, %d) if %r == 'fe' else irk.prove_scalar_mul_512(ll, %r); "
                    "print('RESULT ' + json.dumps([[x[0], x[1], x[2], x[3], x[4]] for x in r[0]])); print('STATS ' + json.dumps(r[1]))") % (
                os.path.join(VERIF, "lib"), os.path.join(wd, "k.ll"), os.path.join(VERIF, "harness", srcfile), REPO, fn, nargs, kind, fn)
            p = subprocess.run(["python3-vt", "-c", code], capture_output=True, text=True, timeout=600)
            out = p.stdout
            if "RESULT " not in out:
                res.status = "BROKEN"; res.reason = "engine K failed: " + (p.stderr or out)[-1500:]; return
            rows = json.loads([l for l in out.splitlines() if l.startswith("RESULT ")][0][7:])
            stats = json.loads([l for l in out.splitlines() if l.startswith("STATS ")][0][6:])
            bad = [r for r in rows if r[1] != "unsat"]
            res.extra = {"obligations": len(rows), "discharged": len([r for r in rows if r[1] == "unsat"]),
                         "samples": ["%s: %s (%.3fs%s)" % (r[0], r[1], r[2], ", cvc5: " + r[4] if r[4] else "") for r in rows][:10], "stats": stats}
            res.solver_s = sum(r[2] for r in rows)
            res.functions = [fn.replace("k_", "secp256k1_")]
            if not bad:
                res.status = "PASS"
            elif any(r[1] == "sat" for r in bad):
                res.status = "VIOLATION"; res.violations = [("K." + fn, r[0]) for r in bad if r[1] == "sat"]
                res.replays = [("K." + fn, r[0], "engine K counterexample (limb values): " + json.dumps(r[3])) for r in bad if r[1] == "sat"]
            else:
                res.status = "BROKEN"; res.reason = "inconclusive: " + "; ".join("%s=%s" % (r[0], r[1]) for r in bad)
        finally:
            shutil.rmtree(wd, ignore_errors=True)
    return Query(name, "", "", kind="py", pyfunc=run, desc="engine K (LLVM IR of the real kernel -> z3 integers, cvc5 cross-check): " + name,
                 bounds="straight-line kernel, all operand values within the documented limb bounds", solver="z3+cvc5")


QUERIES += [
    _k("K_fe_mul_inner_5x52", "C05/k_femul.c", "k_fe_mul_inner", "fe", 3),
    _k("K_fe_sqr_inner_5x52", "C05/k_femul.c", "k_fe_sqr_inner", "fe", 2),
    _k("K_scalar_mul_512_4x64", "C05/k_scmul.c", "k_scalar_mul_512", "sc", 3),
]
LEVEL_TEXT = ("Kernel-by-kernel solver checks of the real arithmetic/hashing code: linear field and scalar kernels bit-exact against 320-bit modular arithmetic (CBMC), multiplication/squaring kernels from their LLVM IR with partial products as opaque atoms "
              "(z3 integers, cvc5 cross-check), SHA-256 buffering/padding as inductive steps from arbitrary states, HMAC structure with uninterpreted compression, and all tag midstates with the real compression.")
ASSUMPTIONS = ["NOT covered (not encodable with this technique here): group law formulas, ge_set_gej / batch inversion, ecmult / ecmult_const / ecmult_gen / multi-scalar, modinv32/64 and Jacobi, fe_sqrt / fe_inv chains, precomputed table contents, x86-64/ARM assembly (the pinned build uses the x86-64 asm scalar path), 10x26 / 8x32 / struct-int128 configurations, scalar_reduce_512, the SHA-256 compression function itself",
               "engine K axiom: a < 2^i and b < 2^j imply a*b <= (2^i-1)(2^j-1) for each 64x64 partial product (atoms otherwise opaque)", "fe_mul/sqr inputs: limbs within the magnitude-8 bounds documented in field_5x52_int128_impl.h",
               "sha256_write: single writes up to the stated bound; longer messages by induction over writes (reasoning)"]
MANIFEST_ENTRY = {
    "text": "Kernel-level solver checks of the real code: fe normalize/b32/linear ops and scalar linear ops bit-exact vs 320-bit modular arithmetic for all operands/magnitudes (CBMC); fe_mul_inner, fe_sqr_inner (5x52 native int128) and scalar_mul_512 (4x64 C path) from their LLVM IR: congruence mod p / exact 512-bit product, limb bounds and no machine-word wrap (z3 integers + cvc5 cross-check); sha256_write/finalize inductive steps from arbitrary states; HMAC structure; all 18 tag midstates with the real compression.",
    "note": "Large parts of C05 are NOT covered and not encodable here: group law, all scalar-multiplication routines, modular inverse, sqrt, table contents, assembly, the 32-bit-limb and struct-int128 configurations, scalar_reduce_512, RFC 6979 generator composition, the compression function itself (see DESIGN.md section 4). The claim is only the kernel table listed in the evidence.",
    "technique": "bounded symbolic execution of the real C (CBMC/kissat) for bit-vector kernels; LLVM-IR to SMT integer encoding (z3, cvc5 cross-check) for multiplication kernels",
}
