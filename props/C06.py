from engine import Query
S = "C06/h_ct.c"
BR = [["--branch", "verif_branch"]]
K = ["secp256k1_fe_impl_mul", "secp256k1_fe_impl_sqr", "secp256k1_fe_mul_inner", "secp256k1_fe_sqr_inner"]
LEAVES = {1: "scalar_cond_negate", 2: "scalar_cmov", 3: "scalar_set_b32_seckey", 4: "scalar_add/negate/half", 5: "fe_cmov + fe_normalize", 6: "fe_normalizes_to_zero", 7: "fe_half/negate/normalize_weak",
          8: "ge_storage_cmov", 9: "memczero/is_zero_array/int_cmov", 10: "scalar_set_b32/is_zero/is_high/get_b32", 11: "fe_mul + fe_sqr (real kernels)", 12: "scalar_mul (real kernel)", 13: "fe_set_b32_mod/get_b32/is_odd"}
QUERIES = []
for cfg, cdefs in (("64", []), ("32", ["USE_FORCE_WIDEMUL_INT64"])):
    for n, what in LEAVES.items():
        real = n in (11, 12)
        q = Query("leaf%s_%02d" % (cfg, n), S, "harness_leaf", defs=["LEAF=%d" % n] + cdefs + (["CT_REAL_KERNELS"] if real else []), unwind=40, timeout=900, instrument=BR, mem_gb=6,
                  allow=K + ["secp256k1_scalar_mul"], desc="%s, %s-bit limb configuration: same branch-decision string for two independent arbitrary secret operand sets" % (what, cfg),
                  bounds="all operand values (field magnitudes <= 8)")
        QUERIES.append(q)
QUERIES.append(Query("ecmult_gen_real", S, "harness_ecmult_gen", defs=["GEN", "CT_REAL_GEN"], unwind=70, timeout=2400, instrument=BR, mem_gb=16, allow=["secp256k1_ecmult_gen"],
                     desc="secp256k1_ecmult_gen, REAL digit recoding / comb loop / 32-entry uniform table scan / conditional negation / blinding rescale, field kernels summarised: same decision string for two independent (scalar, scalar_offset, proj_blind) triples",
                     bounds="COMB_BLOCKS=43, COMB_TEETH=6 (the shipped table); all scalars and blinding values"))
# not registered (harness code kept in h_ct.c): ecmult_const_real (59 min, and the arbitrary-result summaries make PUBLIC table-building computations differ between runs -> spurious differences in gej_add_ge_var),
# modinv_real (out of memory at 16 GB), api 11 s2c_sign (out of memory at 28 GB)
APIS = {1: ("ec_seckey_verify / negate / tweak_add / tweak_mul (key secret, tweak public)", []), 2: ("ec_pubkey_create / keypair_create (key secret)", []),
        3: ("ecdsa_sign with the default RFC 6979 nonce (key secret, message public; declassification points honoured)", ["SHA_CAP=22"]),
        4: ("schnorrsig_sign32 (secret key half of the keypair secret; message, aux public)", []), 5: ("ecdh (scalar secret, point public)", []),
        6: ("context_randomize (seed secret)", []), 7: ("keypair_xonly_tweak_add (secret key secret, tweak public)", []),
        8: ("musig_partial_sign (secret nonce scalars and secret key secret; bound key, cache, session public)", []),
        9: ("musig_nonce_gen (session randomness and secret key secret)", []),
        10: ("ecdsa_adaptor_decrypt (decryption key secret)", []),
        12: ("ellswift_xdh with the BIP-324 hash (secret key secret, encodings public)", []),
        13: ("sign-to-contract path of ecdsa_sign_inner (opening from the original nonce point, nonce tweak): key and caller-supplied nonce secret, message and host data public", [])}
for n, (what, d) in APIS.items():
    QUERIES.append(Query("api_%02d" % n, S, "harness_api", defs=["API=%d" % n, "CT_UF"] + d, unwind=140, unwindset=["secp256k1_ecdsa_sign_inner.0:3", "nonce_function_rfc6979_impl.0:3", "secp256k1_sha256_transform.0:5"], timeout=2400, instrument=BR, mem_gb=14,
                         desc=what + ": equal branch-decision strings for two independent secrets; variable-time routines only on public operands; multiplicative kernels, ecmult_gen and ecmult_const summarised as uninterpreted functions of their operands (equal on public data, free on secret-dependent data)",
                         bounds="first RFC 6979 attempt where applicable"))
LEVEL_TEXT = ("Branch-trace self-composition on the goto program of the real code (goto-instrument --branch + CBMC): two executions with shared public inputs and independent symbolic secrets must produce identical branch-decision strings; "
              "SECP256K1_CHECKMEM_DEFINE is honoured as declassification; variable-time callees must see run-independent operands.")
ASSUMPTIONS = ["control-flow half of the property only, at the level of the C semantics (goto program): what gcc -O2 emits and the memory-address half are NOT examined (valgrind ctime_tests does that)",
               "callee summaries: fe mul/sqr/inv, scalar mul/inverse, SHA-256 compression return run-specific arbitrary values and contribute no events -- justified by the leaf queries (fe_mul/sqr, scalar_mul real code: no branch) ; modinv (fe_inv, scalar_inverse) and ecmult_const are summarised WITHOUT a query of their own",
               "API list: seckey ops, key generation, ECDSA sign, Schnorr sign, ECDH, context_randomize, keypair tweak, musig partial_sign / nonce_gen, adaptor decrypt, ellswift_xdh; s2c sign (harness written, out of memory), other secret-key APIs not covered", "first RFC 6979 attempt (compression-call cap)", "both limb configurations for leaves; 64-bit only above"]
MANIFEST_ENTRY = {
    "text": "Branch-trace self-composition (goto-instrument --branch on the real goto program, decision strings in 8192-bit registers, CBMC/kissat): leaf primitives (cmov / cond_negate / seckey parsing / normalisation / memczero / real fe_mul, fe_sqr, scalar_mul) in BOTH limb configurations, the real secp256k1_ecmult_gen comb loop and table scan with the blinding values as secrets, and eleven API families (seckey ops, key generation, ECDSA and BIP-340 signing, ECDH, context_randomize, keypair tweak, MuSig partial_sign and nonce_gen, adaptor decrypt, ElligatorSwift xdh) produce the same sequence of branch decisions for all pairs of secrets, with the library's declassification points honoured and variable-time routines reached only with public operands.",
    "note": "Only the CONTROL-FLOW half, at C-semantics level: memory addresses, compiled code (-O2), assembly are not examined. modinv-based inversion and ecmult_const are summarised without their own query; adaptor encrypt/recover, MuSig adapt/extract, ellswift_create/encode, anti-exfil commit APIs not covered. Trusted: CBMC, goto-instrument --branch, summaries.",
    "technique": "2-safety (self-composition) bounded model checking of branch-decision traces on the instrumented goto program of the real C code (goto-instrument --branch, CBMC 6.11, kissat)",
}
