from engine import Query
S = "C07/h_c07.c"
def q(name, fn, desc, **kw):
    return Query(name, S, fn, unwind=kw.pop("unwind", 170), timeout=kw.pop("timeout", 1500), mem_gb=kw.pop("mem_gb", 8), desc=desc, **kw)
UNREACH = ["secp256k1_ecmult_strauss_batch", "secp256k1_ecmult_pippenger_batch"]
QUERIES = [
    q("pubkey_parse_any_len", "harness_pubkey", "ec_pubkey_parse on a heap buffer of EXACTLY len bytes, every len 0..72, all bytes; parsed key handed to serialize/negate/cmp/xonly/tweak_add", bounds="len 0..72"),
    q("xonly_parse", "harness_xonly", "xonly_pubkey_parse (32 bytes) and consumers incl. schnorrsig_verify"),
    q("ecdsa_sig_parse_compact", "harness_ecdsa_sig", "ecdsa_signature_parse_compact on an exact 64-byte heap buffer; consumers", defs=["COMPACTONLY"]),
    q("recoverable_sig", "harness_recoverable", "recoverable signature parse_compact for recid 0..3, convert, serialize, recover"),
    q("schnorrsig_verify_any_msglen", "harness_schnorr", "schnorrsig_verify with an exact message buffer of every length 0..72 (NULL allowed for length 0)", bounds="msglen 0..72"),
    q("musig_pubnonce", "harness_musig", "musig_pubnonce_parse on an exact 66-byte object; parsed object handed to serialize, nonce_agg, aggnonce_serialize", defs=["MPART=0"]),
    q("musig_aggnonce_psig", "harness_musig", "musig aggnonce_parse / partial_sig_parse on exact 66/32-byte objects; parsed objects handed to serialize, nonce_process (optional adaptor), nonce_parity, partial_sig_agg, partial_sig_verify", defs=["MPART=1"]),
    q("ecdsa_adaptor_verify_162", "harness_adaptor", "ecdsa_adaptor_verify on arbitrary 162-byte strings", defs=["ADAPT_VERIFY"], tier="thorough"),   # ~8 min; the same function is decided (non-exact buffer) in C14's quick tier
    q("ecdsa_adaptor_decrypt_162", "harness_adaptor", "ecdsa_adaptor decrypt/recover on arbitrary 162-byte strings"),
    q("ellswift", "harness_ellswift", "ellswift_decode accepts every 64-byte string; ellswift_xdh with arbitrary encodings and a caller hash callback"),
    q("commitment_generator", "harness_commitment", "pedersen_commitment_parse / generator_parse on exact 33-byte objects; parsed objects handed to serialize, verify_tally, commit"),
    q("s2c_opening", "harness_s2c", "ecdsa_s2c_opening_parse (33 bytes), serialize, verify_commit"),
]
for L in range(0, 81):
    QUERIES.append(q("ecdsa_der_parse_len%02d" % L, "harness_ecdsa_sig", "ecdsa_signature_parse_der on a separate input object of exactly %d bytes (all byte values): no read past the end; parsed signature handed to normalize / serialize" % L,
                     defs=["DERONLY", "DERLEN=%d" % L], bounds="len = %d" % L, tier="quick" if L <= 5 else "thorough", timeout=900, mem_gb=4))
for m, tier in ((0, "quick"), (1, "thorough")):     # classes 2, 3, 8: symbolic execution ran out of memory at 12 GB (4 kB pad indexed by value-dependent positions)
    QUERIES.append(Query("rewind_inner_m%d" % m, "C07/h_rewind.c", "harness_rewind_inner", defs=["MANT=%d" % m], unwind=140, timeout=1800, mem_gb=12, tier=tier,
                         desc="rangeproof_rewind_inner, ring layout of mantissa class %d: message copied into a caller buffer of EXACTLY *mlen bytes (every *mlen, NULL buffer / NULL length allowed), indices into s/ev/pad in bounds, reported length <= offered length, for all ring scalars, challenges and re-derived randomness" % m,
                         bounds="mantissa class %d; *mlen 0..128*rings+8" % m))
for qq in QUERIES:
    qq.unreachable = UNREACH
# entry points with large inputs are decided per size class by the harnesses of the property that owns the format, with all of CBMC's
# safety checks on: they are part of this check as well (same regenerated queries)
import importlib.util, os
def _other(pid):
    p = os.path.join(os.path.dirname(os.path.abspath(__file__)), pid + ".py")
    spec = importlib.util.spec_from_file_location("c07_" + pid, p); m = importlib.util.module_from_spec(spec); spec.loader.exec_module(m); return m
_take = {"C10": lambda n: n.startswith("body_m") and n.endswith("min0") and any(n.startswith("body_m%d_" % m) for m in (0, 1, 3, 8, 32, 64)),
         "C16": lambda n: n.startswith("wl_verify_k") or n.startswith("wl_codec") or n == "wl_parse_reject", "C17": lambda n: n in ("aggverify_lengths", "incagg_lengths") or n.startswith("aggverify_n"),
         "C19": lambda n: n in ("norm_verify_sizes", "point_pair_codec", "norm_verify_g1_h1") or n.startswith("gens_parse"), "C11": lambda n: n.startswith("parse_")}
for pid, sel in _take.items():
    try:
        m = _other(pid)
    except FileNotFoundError:
        continue
    for oq in m.QUERIES:
        if sel(oq.name) and oq.kind == "cbmc":
            import copy
            nq = copy.copy(oq); nq.name = pid + "_" + oq.name
            nq.defs = list(oq.defs) + ["EXACTBUF"]; nq.name += "_exactbuf"
            # (the 32-ring classes m63/m64, in which the fixed signs[31] / rsizes[32] / pubs[128] arrays are exactly full, cost ~15 min each: thorough tier only)
            if (pid == "C11" and oq.name == "parse_any_len") or (pid == "C16" and oq.name in ("wl_codec_k7", "wl_codec_k1")):
                nq.tier = "thorough"   # decided in the quick tier of the owning property; here only with the exact-size buffer in the thorough tier
            QUERIES.append(nq)
LEVEL_TEXT = ("Bounded model checking of every parsing / verification entry point on input objects of exactly the declared (symbolic) length with all of CBMC's memory-safety and undefined-behaviour checks, counting callbacks, "
              "consumer calls on successfully parsed objects and leak checking with failing allocation; large formats (range proof, whitelist, surjection proof, norm argument) per size class.")
ASSUMPTIONS = ["multiplicative kernels, scalar multiplication routines and SHA-256 return arbitrary values of the right type (their own termination / UB is not examined)",
               "lengths bounded as listed per query; range-proof verifier per mantissa class (0,1,3,8 quick; 32,64 thorough) with an exact-size proof buffer; rewind_inner for mantissa classes 0 and 1 only (larger ring layouts ran out of memory)",
               "recovery id argument in its documented range 0..3; public key / cache objects handed in by the caller are library-produced (canonical)", "64-bit limbs only"]
MANIFEST_ENTRY = {
    "text": "Bounded model checking (CBMC bounds/pointer/overflow/shift checks, unwinding assertions, counting callbacks, --memory-leak-check with failing malloc) of the parsing and verification entry points on heap input objects of EXACTLY the declared symbolic length: pubkey, x-only, DER/compact/recoverable signatures, Schnorr messages, MuSig nonces/partial signatures, adaptor signatures, half-aggregates, ElligatorSwift, commitments/generators, whitelist signatures, BP++ generator lists, s2c openings, plus per-class range-proof / whitelist / norm-argument verifier queries; parsed objects are handed to the consumers of their type.",
    "note": "Kernels opaque (their internal UB/termination not examined); input lengths bounded per query (<= 72..137 bytes for the small formats; range proofs per mantissa class); rangeproof_rewind covered only at its inner function for the two smallest ring layouts; surjection proofs beyond C11's parse classes not covered; compiled-code behaviour (sanitizers) not observed - C semantics only.",
}
