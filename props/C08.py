from engine import Query
S = "C08/h_c08.c"
QUERIES = [
    Query("commit", S, "harness_commit", unwind=66, timeout=900, desc="pedersen_commit: fails exactly for blind >= n or sum at infinity; b*G + v*H hand-over with the 64-bit value and supplied generator; encoding; untouched on failure"),
    Query("commitment_parse", S, "harness_commit_parse", unwind=66, timeout=600, desc="pedersen_commitment_parse for all 33-byte strings: prefix 8/9, x < p, on-curve predicate required; round trip"),
    Query("generator_parse", S, "harness_generator_parse", unwind=66, timeout=600, desc="generator_parse for all 33-byte strings: prefix 10/11, x < p, on-curve predicate required; canonical object; x round trip"),
]
for nb in (1, 2, 3):
    tier = "thorough" if nb == 3 else "quick"
    QUERIES.append(Query("blind_sum_n%d" % nb, S, "harness_blind_sum", defs=["NB=%d" % nb], unwind=66, timeout=1500, tier=tier, desc="pedersen_blind_sum over %d blinds, every npositive: refuses any blind >= n, result = sum(+) - sum(-) mod n" % nb))
    QUERIES.append(Query("blind_gen_sum_n%d" % nb, S, "harness_blind_generator_blind_sum", defs=["NB=%d" % nb], unwind=66, timeout=1500, tier=tier, desc="pedersen_blind_generator_blind_sum over %d entries, every n_inputs: refuses any factor >= n, last factor = r' - sum +-(v r + r')" % nb))
for pc, nc in ((0, 0), (1, 0), (0, 1), (1, 1), (2, 1), (1, 2), (2, 2)):
    QUERIES.append(Query("tally_%d_%d" % (pc, nc), S, "harness_tally", defs=["PC=%d" % pc, "NC=%d" % nc], unwind=66, timeout=900, desc="verify_tally with %d positive / %d negative commitments: order, negation, == infinity test" % (pc, nc)))
LEVEL_TEXT = ("Bounded model checking of the real generator/Pedersen module at real width: exact failure sets (blind >= n), scalar bookkeeping of both blind-sum helpers against a 320-bit reference with the product uninterpreted, "
              "what is handed to the curve layer by commit and tally, and acceptance sets of the two 33-byte parsers with the on-curve predicate recorded.")
ASSUMPTIONS = ["curve layer returns free points; 'commitment == encoding of bG+vH' and 'tally <=> values balance' then rest on the group law (C05, not encodable)",
               "Shallue-van de Woestijne map and generator_generate(_blinded) algebra not covered", "list lengths: blind sums 1..3 entries, tally up to 2+2 commitments", "generator objects hold canonical coordinates"]
MANIFEST_ENTRY = {
    "text": "Bounded model checking of the real generator/Pedersen module at real width: commit fails exactly for blind >= n or infinity and hands (blind, 64-bit value, generator) to the curve layer; both blind-sum helpers refuse every factor >= n and compute the stated scalar expression (320-bit reference, product uninterpreted) for 1..3 entries and every sign split; tally sums negatives, negates, adds positives and tests infinity (up to 2+2); commitment/generator parsers accept exactly prefix, x<p and the recorded on-curve predicate, with round trips.",
    "note": "Not covered: the SvdW generator derivation and blinded = unblinded + blind*G (field algebra, not encodable); group-law consequences (balance iff values balance); longer lists. Trusted: CBMC/kissat, stubs. 64-bit limbs only.",
}
