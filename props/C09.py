from engine import Query
S = "C09/h_c09.c"
QUERIES = [Query("params_exact_value", S, "harness_params", defs=["PARAMS"], unwind=70, timeout=900,
                 desc="range_proveparams, output class 'exact-value proof' (exp = -1 or min_value = 2^64-1): failure set and outputs for all (value, min_value, exp, min_bits)", bounds="all inputs accepted by sign_impl's argument checks")]
for e, tier in ((0, "quick"), (1, "quick"), (2, "quick"), (18, "quick"), (17, "quick"), (3, "thorough"), (16, "thorough"), (15, "thorough")):
    QUERIES.append(Query("params_expout%02d" % e, S, "harness_params", defs=["PARAMS", "EXPOUT=%d" % e], unwind=70, timeout=2400, tier=tier, mem_gb=6,
                         desc="range_proveparams, OUTPUT exponent class %d, all (value, min_value, exp, min_bits): failure set exact; v*10^exp + min == value without wrap; mantissa/ring layout/secret digits; advertised max < 2^64; min <= value <= max" % e,
                         bounds="output class exp = %d; 64-bit value and min_value, exp -1..18, min_bits 0..64 all symbolic" % e))
for m, tier in ((0, "quick"), (1, "quick"), (2, "quick"), (3, "quick"), (8, "thorough")):
    QUERIES.append(Query("sign_assembly_m%d" % m, S, "harness_sign", defs=["SIGN", "MANT=%d" % m, "MSGLEN=%d" % (0 if m < 3 else 5)], unwind=140, timeout=2400, tier=tier, mem_gb=24, flags=["--max-field-sensitivity-array-size", "64"],
                         desc="rangeproof_sign_impl, mantissa class %d, on an output object of EXACTLY *plen bytes: documented-invalid arguments, message capacity, buffer too small (every size), blind >= n refused; reported length, placement, the written header decodes to the prover's parameters with min <= value <= max, size <= max_size" % m,
                         bounds="mantissa class %d (parameter derivation: arbitrary result satisfying the post-condition proved by params_*), message/extra data <= 8 bytes, buffer 0..need+8" % m))
for m, e, hm in ((1, 0, 0), (3, 1, 1)):
    QUERIES.append(Query("rewind_outputs_m%d" % m, "C10/h_c10.c", "harness_rewind_out", defs=["BODY", "REWIND", "MANT=%d" % m, "PLEN_DELTA=0", "HASMIN=%d" % hm, "EXPF=%d" % e], unwind=140, timeout=1500, mem_gb=8,
                         flags=["--max-field-sensitivity-array-size", "6000"],
                         desc="rewind mode of rangeproof_verify_impl (mantissa class %d, exponent %d): failed ring check / failed inner rewind => failure; on success (blind, value*scale+min) is re-committed and compared, and value_out / blind_out / message outputs are each delivered independently of which other outputs are requested" % (m, e),
                         bounds="mantissa class %d; inner rewind and curve arithmetic opaque" % m))
LEVEL_TEXT = ("Bounded model checking of range-proof creation: bit-precise parameter derivation per output exponent class with 192-bit reference arithmetic, and proof assembly per mantissa class on exact-size output objects "
              "with ring signer, randomness and curve arithmetic opaque: failure sets, buffer and message capacity, header round trip through the real header decoder, size bound.")
ASSUMPTIONS = ["output exponent classes 0,1,2,17,18 and the exact-value class (quick), 3,15,16 (thorough); the middle classes 4..14 are NOT decided (nested /10, *10 arithmetic: no verdict in 900 s on any back end - DESIGN.md)",
               "sign => verify => rewind end-to-end (needs ring signer + group law) not covered; determinism of proof bytes is C20-style 2-safety and not covered here",
               "sign assembly: parameter derivation replaced by an arbitrary result satisfying the proved post-condition; genrand, borromean_sign, pedersen_ecmult, pub_expand opaque", "64-bit limbs"]
MANIFEST_ENTRY = {
    "text": "Bounded model checking of the real range-proof prover: secp256k1_range_proveparams for ALL 64-bit (value, min_value), exp -1..18, min_bits 0..64 inside output-exponent classes {exact, 0, 1, 2, 17, 18} (thorough +3, 15, 16): exact failure set (2^63 guards), v*10^exp + min == value without wrap, ring layout bounds, advertised max < 2^64, min <= value <= max (192-bit reference); rangeproof_sign_impl per mantissa class {0,1,2,3} (thorough 8) on output objects of exactly *plen bytes: invalid arguments, message capacity, every too-small buffer and blind >= n refused, nothing written past the buffer, reported length, header written decodes (real decoder) to the prover's parameters, size <= max_size.",
    "note": "NOT decided: output exponent classes 4..14 (solver gives no verdict), that created proofs verify and rewind end-to-end (ring equation / group law not encodable; only the rewind OUTPUT block of verify_impl and, in C07, the inner rewind's memory safety are checked), proof-byte determinism, message lengths > 8 in the assembly harness. Trusted: CBMC/kissat, stubs.",
}
