from engine import Query
S = "C10/h_c10.c"
QUERIES = []
for e in range(32):
    QUERIES.append(Query("header_exp%02d" % e, S, "harness_hdr", defs=["HDR", "EXPC=%d" % e], unwind=40, timeout=600,
                         desc="rangeproof_getheader_impl == 192-bit reference for exponent field %d: all flag bits, mantissa, min_value bytes and all size_t lengths" % e,
                         bounds="exponent field = %d (assigned), everything else symbolic" % e))
for mant, tier in ((0, "quick"), (1, "quick"), (2, "quick"), (3, "quick"), (5, "quick"), (8, "quick"), (17, "thorough"), (32, "thorough"), (63, "thorough"), (64, "thorough")):
    for delta in (0, 1, -1):
        for hasmin in ((0, 1) if delta == 0 and mant in (0, 3) else (0,)):
            QUERIES.append(Query("body_m%d_d%+d_min%d" % (mant, delta, hasmin), S, "harness_body",
                                 defs=["BODY", "MANT=%d" % mant, "PLEN_DELTA=%d" % delta, "HASMIN=%d" % hasmin, "EXPF=%d" % (18 if mant == 2 else (0 if mant >= 60 else mant % 5))], unwind=140, timeout=1500, tier=tier,
                                 flags=["--max-field-sensitivity-array-size", "6000"],
                                 desc="rangeproof_verify_impl, mantissa class %d, length delta %+d: spare sign bits, digit x >= p, off-curve digit, ring scalar >= n, trailing/truncated bytes rejected; ring layout and scalars handed to the ring verifier" % (mant, delta),
                                 bounds="header bytes assigned (mantissa %d, exponent assigned), all other proof bytes symbolic, commitment/generator/extra data arbitrary" % mant))
B = "C10/h_bor.c"
for rs0, rs1, tier in ((1, 0, "quick"), (2, 0, "quick"), (4, 0, "quick"), (2, 1, "quick"), (4, 2, "thorough"), (4, 4, "thorough")):
    QUERIES.append(Query("borromean_verify_%d_%d" % (rs0, rs1), B, "harness_borromean_verify", defs=["RS0=%d" % rs0] + (["RS1=%d" % rs1] if rs1 else []), unwind=270, timeout=1500, tier=tier, mem_gb=8,
                         desc="secp256k1_borromean_verify == reference ring verifier for ring layout [%d%s]: all scalars, keys (incl. infinity), e0, m; zero scalars / infinite keys / infinite intermediate points rejected; chaining, indices and final hash as specified" % (rs0, (",%d" % rs1) if rs1 else ""),
                         bounds="ring layout [%d%s], 32-byte message" % (rs0, (",%d" % rs1) if rs1 else "")))
LEVEL_TEXT = ("Bounded model checking of the real range-proof verifier: the header decoder is compared with a 192-bit reference for all headers and lengths (one query per exponent field value), and verify_impl is executed per mantissa class "
              "with all proof bytes symbolic and curve/hash/ring-verifier results arbitrary, deciding every structural rejection of the statement.")
ASSUMPTIONS = ["Borromean ring equation itself is not decided here (ring verifier replaced by a recording stub returning an arbitrary verdict); its hand-over (ring layout, e0, scalars) is asserted",
               "mantissa classes: quick 0,1,2,3,5,8; thorough adds 17,32,63,64; other mantissas execute the same loops with other trip counts",
               "curve arithmetic, square-root decision and SHA-256 opaque", "bit-flip clauses (any changed byte changes the hashed transcript) not covered"]
MANIFEST_ENTRY = {
    "text": "Bounded model checking of the real range-proof verifier: header decoder == 192-bit reference for ALL headers/lengths (exp>18, reserved bit, mantissa>64, max*10^exp and min+max overflow), and verify_impl per mantissa class with all proof bytes symbolic: spare sign bits, digit x>=p, off-curve digit, ring scalar >= n, trailing or truncated bytes are rejected; accepted => ring verifier accepted with the specified ring layout and the proof's scalars.",
    "note": "Not covered: the Borromean ring equation (ring verifier stubbed with an arbitrary verdict), bit-flip/transcript-binding clauses, mantissa classes outside the listed ones; curve/hash kernels opaque. 64-bit limbs only.",
}
