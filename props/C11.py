from engine import Query
S = "C11/h_c11.c"
QUERIES = [
    Query("parse_any_len", S, "harness_parse_any", defs=["PARSE_ANY", "PMAX=8300"], unwind=40, timeout=1800, mem_gb=16, flags=["--max-field-sensitivity-array-size", "64"],
          desc="surjectionproof_parse on an input object of EXACTLY len bytes for every len 0..8300 and all bytes (all 65536 count fields, every padding pattern): accepts exactly the canonical encodings; both copies stay inside used_inputs[32] / data[8224] and inside the input (copies modelled as range checks)",
          bounds="len 0..8300 symbolic"),
    Query("csprng_step", S, "harness_csprng", defs=["CSPRNG"], unwind=40, unwindset=["secp256k1_surjectionproof_csprng_next.0:2"], timeout=600,
          desc="rejection sampler, one step from an arbitrary state for rand_max 1..256: result < rand_max, state index in range, refresh rule", bounds="first sample accepted (a rejected sample repeats the step)"),
]
for nin, nused, tier in ((1, 1, "quick"), (8, 3, "quick"), (9, 2, "quick"), (255, 1, "quick"), (256, 2, "quick"), (256, 16, "thorough"), (17, 17, "thorough")):
    QUERIES.append(Query("codec_n%d_u%d" % (nin, nused), S, "harness_codec", defs=["CODEC", "NIN=%d" % nin, "NUSED=%d" % nused], unwind=max(40, 2 + (nin + 7) // 8 + 32 * (1 + nused) + 3), timeout=900, mem_gb=8,
                         flags=["--max-field-sensitivity-array-size", "9000"], tier=tier,
                         desc="parse / serialize round trip, n_total/n_used/serialized_size, buffer-size negotiation for the size class n_inputs=%d, %d used" % (nin, nused), bounds="class (%d,%d), all signature bytes" % (nin, nused)))
for kt in (1, 2, 3):
    _tier = "quick" if kt < 3 else "thorough"
    # verify_struct_k* (harness_verify_struct in h_c11.c) is NOT registered: symbolic execution over the 8 kB proof object did not finish in 25 min in three configurations
    QUERIES.append(Query("initialize_k%d" % kt, S, "harness_initialize", defs=["INIT", "KT=%d" % kt], unwind=270, unwindset=["secp256k1_surjectionproof_initialize.10:4", "secp256k1_surjectionproof_initialize.9:%d" % (kt + 2), "secp256k1_surjectionproof_initialize.8:9"], timeout=2400, mem_gb=16, tier=_tier, flags=["--max-field-sensitivity-array-size", "9000"],
                         desc="surjectionproof_initialize for 1..%d inputs, every subset size, all tags incl. duplicates, <= 2 iterations: success => exactly n_to_use selected bits inside the list, reported index selected and its tag equals the output tag (32 bytes)" % kt,
                         bounds="n <= %d, <= 2 iterations, <= 6 sampler draws" % kt))
LEVEL_TEXT = ("Bounded model checking of the real surjection-proof module: the parser is compared with a reference grammar for every byte string up to 8300 bytes with copies as exact range checks; codec round trips per size class; "
              "initialize's post-condition for arbitrary tags with the sampler and ring verifier as recorded stubs; the ring verifier itself is C10's borromean_verify queries.")
ASSUMPTIONS = ["ring verifier stubbed in verify_struct (its own reference check: C10 borromean_verify_*), sampler stubbed by its contract in initialize (its step: csprng_step)",
               "verify / initialize for <= 3 inputs; generate => verify completeness not covered (needs the group law)", "initialize: <= 2 iterations and <= 6 sampler draws", "64-bit limbs"]
MANIFEST_ENTRY = {
    "text": "Bounded model checking of the real surjection-proof code: parse == canonical reference grammar for ALL inputs of every length 0..8300 (all count fields, padding patterns, length +-1) with both copies proved inside the proof object; round trip / size functions per size class incl. 255 and 256 inputs; the ring verifier behind verify is checked against a reference in C10's borromean queries (zero scalar, infinite ring key = selected input equal to output, chaining, final hash); initialize post-condition for all tags, subset sizes and sampler outputs (<= 3 inputs); sampler step.",
    "note": "Not covered: surjectionproof_verify's own pre-checks (empty selection, count mismatch, scalar >= n: harness written, symbolic execution over the 8 kB proof object did not converge), generate => verify completeness (group law, not encodable), inputs > 3 in verify/initialize (same loops), sampler bias. Kernels opaque.",
}
