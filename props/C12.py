from engine import Query
S = "C12/h_c12.c"
def q(name, fn, desc, **kw):
    return Query(name, S, fn, unwind=kw.pop("unwind", 270), timeout=kw.pop("timeout", 1200), mem_gb=kw.pop("mem_gb", 8), desc=desc, **kw)
QUERIES = [
    q("nonce_gen_counter_handover", "harness_nonce_gen_counter", "nonce_gen_counter: ALL 8 counter bytes reach the nonce hash (all 2^64 counters), keypair secret/public key, x-only aggregate key, R_i = k_i G, secnonce/pubnonce contents, failure masking", defs=["STUB_NONCEFN"]),
    q("nonce_gen_handover", "harness_nonce_gen", "nonce_gen: randomness/optional arguments reach the nonce hash unchanged, success set, object contents", defs=["STUB_NONCEFN"]),
    q("tweak_step", "harness_tweak", "ec/xonly tweak_add from an ARBITRARY valid cache == BIP-327 ApplyTweak (g, gacc, tacc, Q'), failure set, cache untouched on failure: one inductive step covers tweak sequences of every length"),
    q("partial_sign_algebra", "harness_partial_sign", "partial_sign from arbitrary valid (cache, session, live secnonce): s == k1' + b k2' + e a d with BIP-327 sign conventions and KeyAgg coefficient (second-key shortcut)"),
    q("partial_verify_equation", "harness_partial_verify", "partial_sig_verify == (s G == Re' + e a g' P) for arbitrary valid objects: exact curve-layer hand-over and acceptance condition"),
    q("adaptor_roundtrip", "harness_adaptor", "adapt: failure set, s' = s +- t; extract_adaptor(adapt(pre,t),pre) == t for all pre-signatures, secrets, parities; nonce_parity accessor"),
    q("extract_formula", "harness_extract", "extract_adaptor failure set and formula for all inputs"),
]
for nk, tier in ((1, "quick"), (2, "quick"), (3, "quick"), (4, "thorough")):
    QUERIES.append(q("keyagg_n%d" % nk, "harness_keyagg", "pubkey_agg of %d keys (all key multisets incl. duplicates): second key, L, coefficients a_i, terms handed to the multi-multiplication, cache and x-only output, pubkey_get" % nk,
                     defs=["HARNESS_KEYAGG", "NK=%d" % nk], tier=tier, unwind=max(270, 33 * nk + 140), bounds="n = %d keys" % nk))
for nk, tier in ((1, "quick"), (2, "quick"), (3, "quick")):
    for ic in range(4):
        QUERIES.append(q("nonce_agg_n%d_inf%d" % (nk, ic), "harness_nonce_agg", "nonce_agg of %d public nonces, final-sum infinity class %d (bit0: first component infinite, bit1: second): component-wise running sums, infinity-capable aggnonce object and 66-byte serialization" % (nk, ic),
                         defs=["NK=%d" % nk, "INFCLASS=%d" % ic], tier=tier, bounds="n = %d" % nk))
    QUERIES.append(q("sig_agg_n%d" % nk, "harness_sig_agg", "partial_sig_agg of %d partial signatures: xbytes(R) || (sum s_i + tweak term) mod n" % nk, defs=["NK=%d" % nk], tier=tier, bounds="n = %d" % nk))
for c in range(16):
    QUERIES.append(q("nonce_fn_layout_c%02d" % c, "harness_nonce_fn", "secp256k1_nonce_function_musig == BIP-327 NonceGen hash layout, presence class %d (bit0: no sk, bit1: no aggpk, bit2: no msg, bit3: no extra_in), all byte values" % c, defs=["NF_COMBO=%d" % c]))
for c in range(16):
    QUERIES.append(q("nonce_process_c%02d" % c, "harness_nonce_process", "nonce_process from an arbitrary valid cache, class %d (bit0 adaptor absent, bit1 R_1' infinite, bit2 R_2 infinite, bit3 R_1'+bR_2 infinite => G): b, R, e, tweak term as in BIP-327 GetSessionValues" % c, defs=["PCLASS=%d" % c]))
_t = Query("t_signphase_order13", "T/h_t.c", "harness_musig_signphase", defs=["T_MUSIG"], unwind=140, timeout=3000, mem_gb=8, allow=["secp256k1_scalar_inverse", "secp256k1_scalar_inverse_var"],
           desc="engine T (order-13 subgroup, table model generated and validated from the real code at check time): from an ARBITRARY valid key-aggregation cache, an ARBITRARY session and any live secret nonce bound to the signer's key, partial_sign succeeds and partial_sig_verify accepts the result for the signer's own key and public nonce",
           bounds="group order 13; one symbolic key byte; all cache / session / nonce values")
_t.gen_table = 13
QUERIES.append(_t)
LEVEL_TEXT = ("Bounded model checking of the real MuSig2 module at real width against a reference written from BIP-327: every API function is run from arbitrary valid objects with curve results as free recorded points, "
              "scalar multiplication and the SHA-256 compression function uninterpreted, so hash layouts, coefficients, sign conventions, accumulators, infinity handling and failure sets are decided for all inputs.")
ASSUMPTIONS = ["curve layer (ecmult, ecmult_gen, ecmult_multi_var, gej_add_*) returns free points: that honest sessions yield valid BIP-340 signatures then follows from the BIP-327 correctness argument over the group law, which is not encoded",
               "objects hold canonical coordinates (what the library stores); aggregate key at infinity excluded (library: VERIFY_CHECK only, 'negligible')",
               "scalar multiplication: commutative uninterpreted function exact on 0 and 1; SHA-256 compression: uninterpreted function shared with the reference; tag midstates are C05's subject",
               "signer counts 1..3 (thorough 4) for aggregation functions; per-signer functions are independent of the signer count", "64-bit limbs only"]
MANIFEST_ENTRY = {
    "text": "Engine T: in the order-13 group, from an arbitrary valid cache, an arbitrary session and any live nonce, partial_sign succeeds and partial_sig_verify accepts the result for the signer's own key and nonce. Bounded model checking of the real MuSig2 code at real width against a reference written from BIP-327 (uninterpreted compression function and scalar product shared with the reference, free recorded curve results): nonce hash layout for all optional-argument combinations, all 2^64 counters of nonce_gen_counter, key aggregation for 1..3 keys incl. duplicates and second-key coefficient, one-step ApplyTweak from an arbitrary cache, nonce aggregation with infinite components, session values (b, R or G, e, tweak term, adaptor), partial-sign formula, partial-verify equation, aggregation, adapt/extract inverse.",
    "note": "Not covered: the group-law step from these per-function equalities to 'the aggregate verifies under BIP-340' (needs C05's not-encodable clauses; the BIP-327 algebra is trusted reasoning), 4..16 signers in the aggregation loops (same loop body), partial signatures failing for other keys beyond the verification equation. Trusted: CBMC/kissat, stubs, reference in harness/C12.",
}
