import os, re
from engine import Query, REPO

SRC = "C13/h_c13.c"
QUERIES = [
    Query("partial_sign_any_state", SRC, "harness_partial_sign", unwind=140, timeout=600,
          desc="secp256k1_musig_partial_sign from arbitrary secnonce/keypair/cache/session objects, arbitrary NULL-ness",
          bounds="all objects fully symbolic (132+96+197+133+36 bytes), loops complete (unwind 140 >= 133 with unwinding assertions)"),
    Query("nonce_gen_any_args", SRC, "harness_nonce_gen", unwind=140, timeout=600,
          desc="secp256k1_musig_nonce_gen, every argument object symbolic, NULL-ness symbolic, proper/static ctx"),
    Query("nonce_gen_counter_any_args", SRC, "harness_nonce_gen_counter", unwind=140, timeout=600,
          desc="secp256k1_musig_nonce_gen_counter, all 2^64 counters, every object symbolic"),
]


def _writers(q, res):
    """write-set side condition: which public musig functions take a non-const secnonce pointer"""
    hdr = open(os.path.join(REPO, "include", "secp256k1_musig.h")).read()
    hdr = re.sub(r"/\*.*?\*/", "", hdr, flags=re.S)
    fns = re.findall(r"SECP256K1_API[^;]*?(secp256k1_musig_\w+)\s*\(([^;]*?)\)\s*(?:SECP256K1_ARG_NONNULL\(\d+\)\s*)*;", hdr, flags=re.S)
    writers = sorted(n for n, args in fns if re.search(r"(?<!const )secp256k1_musig_secnonce\s*\*", args))
    expected = ["secp256k1_musig_nonce_gen", "secp256k1_musig_nonce_gen_counter", "secp256k1_musig_partial_sign"]
    res.extra = {"obligations": 1, "discharged": int(writers == expected), "samples": ["secnonce writers in public API: %s" % writers]}
    if writers == expected:
        res.status = "PASS"
    else:
        res.status = "BROKEN"
        res.reason = "public API functions taking a mutable secnonce changed: %s (harness list must be extended)" % writers


QUERIES.append(Query("secnonce_writer_set", "", "", kind="py", pyfunc=_writers,
                     desc="side condition (syntactic, not a solver query): only the three harnessed functions can write a secnonce"))

LEVEL_TEXT = ("Bounded model checking (CBMC 6.11 + kissat) of the real musig/session_impl.h code, one inductive step: "
              "each nonce-handling API function is executed symbolically from ARBITRARY contents of every argument object, "
              "so the single-use invariant (after partial_sign the object is all-zero; dead objects never sign; nonce_gen leaves "
              "live objects only on success) holds for call histories of every length over any pool of objects.")
ASSUMPTIONS = [
    "multiplicative kernels (fe mul/sqr/inv/sqrt, scalar mul/inverse, ecmult*, SHA-256 compression) replaced by stubs returning arbitrary values of the right type (over-approximation)",
    "context: counting callbacks, arbitrary blinding state; VERIFY_CHECK disabled as in the production build",
    "histories follow from the one-step invariant by induction (reasoning, not a solver step); the write-set side condition is syntactic",
    "64-bit limb configuration (5x52 / 4x64, native int128)",
]

MANIFEST_ENTRY = {
    "text": "Inductive single-step model checking: partial_sign, nonce_gen and nonce_gen_counter are symbolically executed (real code, CBMC) from arbitrary contents and NULL-ness of every argument object; the asserted one-step invariant implies the single-use property for call histories of any length, which enumeration of histories cannot give.",
    "note": "Trusted: CBMC/kissat; multiplicative kernels and SHA-256 API replaced by arbitrary-value stubs (over-approximation); induction over histories and the syntactic write-set side condition are reasoning outside the solver; 64-bit limb configuration only; 'nonce hash = 0' (k=0) is treated as the library does (VERIFY_CHECK only).",
}
