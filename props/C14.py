from engine import Query
S = "C14/h_c14.c"
U = ["secp256k1_ecmult_strauss_batch", "secp256k1_ecmult_pippenger_batch"]
QUERIES = [
    Query("adaptor_verify", S, "harness_verify", unwind=170, timeout=900, desc="ecdsa_adaptor_verify for all 162-byte strings: accept => valid points, R.x mod n != 0, 0 < s' < n, DLEQ accepted on (R',Y,R), adaptor equation hand-over, final infinity"),
    Query("adaptor_decrypt", S, "harness_decrypt", unwind=170, timeout=900, desc="ecdsa_adaptor_decrypt: exact failure set, output (R.x mod n, low-S(s'/y)), zeroing"),
    Query("adaptor_recover", S, "harness_recover", unwind=170, timeout=900, desc="ecdsa_adaptor_recover: r match, zero s, encryption-key x match, negated-twin handling; fails only for documented reasons"),
    Query("adaptor_encrypt", S, "harness_encrypt", unwind=170, timeout=900, desc="ecdsa_adaptor_encrypt: failure masking (162 zero bytes), same nonce for R and R', serialized fields"),
]
QUERIES[3].unreachable = U
LEVEL_TEXT = ("Bounded model checking of the real ECDSA-adaptor module at real width: 162-byte codec and every structural rejection of adaptor verification for all byte strings, decrypt/recover scalar algebra with uninterpreted mul/inverse "
              "(low-S normalisation, negated-s twin), failure masking of encrypt, with the DLEQ sub-protocol and the curve layer recorded.")
ASSUMPTIONS = ["DLEQ prove/verify replaced by recording stubs with arbitrary verdicts (their equations are not decided here)", "curve layer returns free points; end-to-end encrypt=>verify=>decrypt=>recover consistency then rests on the group law",
               "scalar mul/inverse uninterpreted", "key objects canonical"]
MANIFEST_ENTRY = {
    "text": "Bounded model checking of the real ECDSA-adaptor module at real width: adaptor_verify accepts only with valid R/R', R.x mod n != 0, 0<s'<n, DLEQ response < n, valid keys, an accepting DLEQ check on (R',Y,R) and the adaptor equation at infinity, for all 162-byte strings; decrypt's exact failure set and low-S output; recover's r-match / zero-s / key-match logic incl. the negated-s twin; encrypt's failure masking.",
    "note": "Not covered: DLEQ equations (stubbed with arbitrary verdicts), end-to-end pipeline on a concrete group, nonce derivation layout of the adaptor nonce function. Curve layer free; scalar mul/inverse uninterpreted. 64-bit limbs only.",
}
