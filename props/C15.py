from engine import Query
S = "C15/h_c15.c"
QUERIES = [
    Query("verify_commit", S, "harness_verify_commit", defs=["VERIFY_COMMIT"], unwind=210, timeout=900,
          desc="ecdsa_s2c_verify_commit == (R0 + H_tag(ser33(R0)||data) G finite and x mod n == sig r); tweak >= n fails; tagged-hash layout vs reference"),
    Query("host_verify_implies_commit", S, "harness_host_verify", defs=["VERIFY_COMMIT"], unwind=210, timeout=900,
          desc="anti_exfil_host_verify accepts only if the commitment check accepts on the same arguments"),
    Query("signer_commit_eq_sign_nonce", S, "harness_nonce_eq", defs=["NONCE_EQ"], unwind=210, unwindset=["secp256k1_ecdsa_sign_inner.0:3", "nonce_function_rfc6979_impl.0:4", "secp256k1_ecdsa_anti_exfil_signer_commit.0:3", "secp256k1_sha256_transform.0:4"], timeout=1500, mem_gb=12,
          desc="anti-exfil: opening from signer_commit(host_commit(rho)) == opening of s2c_sign(rho): the static-context and caller-context RFC 6979 derivations get identical key material, for all keys, messages (incl. >= n) and rho",
          bounds="first RFC 6979 draw assumed to be a valid nonce (retry loops cut); RFC 6979 generator and k -> kG uninterpreted"),
]
LEVEL_TEXT = ("Bounded model checking of the real sign-to-contract module at real width: commitment verification exactness and tweak hash layout against a reference, and equality of the nonce derived by the stand-alone signer-commit step "
              "with the one used inside signing, with RFC 6979, SHA-256 compression and fixed-base multiplication uninterpreted (so it holds for any correct replacement hash function and any context).")
ASSUMPTIONS = ["s2c_sign => verify_commit == 1 for the same datum (and 0 for others) needs R0 + tG == (k+t)G, i.e. the group law: not covered", "first RFC 6979 draw valid (probability 1 - 2^-128); retry paths outside the bound",
               "curve layer free / uninterpreted; SHA-256 compression uninterpreted", "opening objects canonical"]
MANIFEST_ENTRY = {
    "text": "Bounded model checking of the real sign-to-contract / anti-exfil code at real width: verify_commit accepts exactly when R0 + H_tag(ser33(R0)||data)*G is finite with x mod n == r (tweak hash layout vs reference, tweak >= n fails); host_verify implies the commitment check; the opening committed by signer_commit(host_commit(rho)) equals the opening of the later s2c signature for all keys, messages (incl. >= n) and rho, with RFC 6979, compression and k->kG uninterpreted.",
    "note": "Not covered: completeness/soundness that need the group law (sign => verify_commit for exactly that datum), low-S/validity of the s2c signature (shares C01's sign core), opening codec (shares C03's pubkey codec). First RFC 6979 draw assumed valid. 64-bit limbs only.",
}
