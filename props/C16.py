from engine import Query
S = "C16/h_wl.c"
QUERIES = []
for k in (0, 1, 2, 3):
    v = Query("wl_verify_k%d" % k, S, "harness_wl_verify", defs=["K=%d" % k, "MAXK=4"], unwind=66, timeout=900,
              flags=["--max-field-sensitivity-array-size", "300"],
              desc="whitelist_verify, key count class %d (caller count and sig->n_keys assigned), signature bytes / pubkey objects / kernel and hash results arbitrary" % k,
              bounds="n_keys = %d; all loops complete" % k)
    v.concrete = [("empty key list never verifies", "C16/replay_f1.c", "REPRODUCED")]
    QUERIES.append(v)
QUERIES += [
    Query("wl_verify_mismatch", S, "harness_wl_mismatch", defs=["MAXK=4"], unwind=3, timeout=900,
          desc="whitelist_verify for ALL (sig->n_keys, n_keys) size_t pairs that differ or exceed 255: returns 0 without touching keys",
          bounds="all 2^128 count pairs; ring loops unreachable (their unwinding assertions are proved)"),
    Query("wl_privkey_gate", S, "harness_wl_privkey", defs=["WL_SIGN"], unwind=66, timeout=600,
          desc="whitelist secret gate: every (online, summed) 32-byte pair with a zero or >= n component is refused, output cleared"),
    Query("wl_sign_bad_index", S, "harness_wl_sign_badidx", defs=["MAXK=3", "WL_SIGN"], unwind=2, timeout=600,
          desc="whitelist_sign with every index >= n_keys is refused through the illegal callback before touching keys",
          bounds="n_keys 0..3, index any size_t >= n_keys; code after the argument checks is unreachable (its unwinding assertions are proved)"),
    Query("wl_parse_reject", S, "harness_wl_parse_reject", unwind=3, timeout=600,
          desc="whitelist_signature_parse rejects every (count byte, size_t length) pair with length != 33+32*count, reading only input[0]",
          bounds="all 256 x 2^64 (count, length) pairs"),
]
for k in (1, 2):
    QUERIES.append(Query("wl_handover_k%d" % k, S, "harness_wl_handover", defs=["K=%d" % k, "MAXK=4", "WL_HANDOVER"], unwind=66, timeout=900,
                         desc="whitelist_verify with %d keys, well-formed scalars: verdict == ring verifier's verdict over one ring of all keys with the proof's e0 and scalars, also when an entry's key tweak fails (degenerate entry must not abort verification)" % k,
                         bounds="n_keys = %d" % k))
for k in (0, 1, 7):
    QUERIES.append(Query("wl_codec_k%d" % k, S, "harness_wl_parse_accept", defs=["K=%d" % k], unwind=8300, timeout=900,
                         flags=["--max-field-sensitivity-array-size", "9000"],
                         desc="whitelist parse/serialize round trip, count class %d, all payload bytes, all output buffer lengths" % k,
                         bounds="count = %d (assigned), payload symbolic" % k))
LEVEL_TEXT = ("Bounded model checking of the real whitelist module at real width with curve arithmetic and hashing opaque (arbitrary results): "
              "every structural rejection of the statement (empty list, count mismatch, >255, zero/out-of-range scalar, bad secrets) holds for all inputs and any kernel behaviour; codec exact.")
ASSUMPTIONS = ["ring equation itself (honest sign => verify, reference ring verifier) needs the tiny-group engine T and is not covered by these queries",
               "API-level whitelist_sign success path is not symbolically executed (RFC 6979 + Borromean signing did not finish in 900 s); its secret gate and index gate are", "whitelist codec accept side: counts 0, 1, 7 (count 255 did not finish symbolic execution in 900 s); reject side: all counts and lengths", "key lists up to 3 keys in verify (the per-key loop body is identical for larger counts)",
               "multiplicative kernels and SHA-256 API opaque (arbitrary results)"]

MANIFEST_ENTRY = {
    "text": "Bounded model checking of the real whitelist module at real width with curve arithmetic and hashing opaque: every structural rejection in the statement (empty key list, count mismatch for all size_t pairs, >255 keys, zero/out-of-range ring scalars, invalid secrets, bad signer index) is decided for all inputs and any kernel result; codec exact for all lengths. Found and reproduced finding F1 (empty key list), now fixed in /repo.",
    "note": "Not covered: the ring equation itself (honest sign => verify, reference ring verifier) and API-level signing success path; key-count classes 0..3 for verify; codec accept classes 0,1,7. Trusted: CBMC/kissat, over-approximating stubs for field/scalar/ecmult/SHA.",
}
