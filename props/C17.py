from engine import Query
S = "C17/h_c17.c"
QUERIES = [
    Query("aggverify_lengths", S, "harness_aggverify_len", defs=["LENGTHS"], unwind=3, timeout=600,
          desc="aggverify: every (n, aggsig_len) size_t pair with aggsig_len != 32(n+1) rejected without reading any buffer", bounds="all 2^128 pairs; loops unreachable"),
    Query("incagg_lengths", S, "harness_incagg_len", defs=["LENGTHS"], unwind=3, timeout=600,
          desc="inc_aggregate: n_before + n_new overflow and too-small buffers rejected for all size_t triples, nothing touched", bounds="all 2^192 triples"),
]
for n, tier in ((0, "quick"), (1, "quick"), (2, "quick"), (3, "thorough")):
    QUERIES.append(Query("aggverify_n%d" % n, S, "harness_aggverify", defs=["VERIFYN", "NSIG=%d" % n], unwind=140, timeout=1200, tier=tier,
                         desc="aggverify with %d signatures: s >= n, r_i >= p, invalid key rejected for all aggregate bytes; accept => lhs = sG" % n, bounds="n = %d" % n))
for nb, nn, tier in ((1, 1, "quick"), (0, 1, "quick"), (1, 0, "quick"), (0, 2, "thorough"), (2, 0, "thorough"), (1, 2, "thorough"), (2, 1, "thorough")):
    QUERIES.append(Query("incagg_%d_%d" % (nb, nn), S, "harness_incagg", defs=["INCAGG", "NB=%d" % nb, "NN=%d" % nn], unwind=200, timeout=1500, tier=tier,
                         desc="inc_aggregate(%d then %d) == aggregate(%d) byte for byte, lengths, r_i order, no write beyond 32(n+1); all signature/message/key bytes" % (nb, nn, nb + nn),
                         bounds="split %d+%d, buffer capacity symbolic" % (nb, nn)))
LEVEL_TEXT = ("Bounded model checking of the real half-aggregation module at real width: full-range size_t length/overflow logic, structural rejections for all aggregate bytes, and byte-identity of incremental vs one-shot aggregation "
              "with SHA-256 compression and scalar multiplication uninterpreted (so it holds for any hash and any product function).")
ASSUMPTIONS = ["verification equation (sum z_i (R_i + e_i P_i) == sG) is reduced to the curve layer: results free, group law not encoded", "signature counts: verify 0..2 (thorough 3); incremental splits 1+1, 0+1, 1+0 (thorough 0+2, 2+0, 1+2, 2+1)",
               "x-only key objects canonical", "SHA-256 compression / scalar mul uninterpreted"]
MANIFEST_ENTRY = {
    "text": "Bounded model checking of the real half-aggregation module: aggverify/inc_aggregate length and overflow logic for ALL size_t values; aggverify rejects s >= n, r_i >= p and invalid keys for all aggregate bytes (n <= 2, thorough 3); incremental aggregation over a split equals one-shot aggregation byte for byte with exactly 32(n+1) bytes and no write beyond, for all inputs (splits 1+1, 0+1, 1+0; thorough 0+2, 2+0, 1+2, 2+1), hash and scalar product uninterpreted.",
    "note": "Not covered: the verification equation itself on a concrete group (aggregate=>aggverify completeness, equation exactness), counts above 3; curve layer free, group law not encoded. 64-bit limbs only.",
}
