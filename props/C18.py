from engine import Query
S = "C18/h_c18.c"
QUERIES = [
    Query("ecdh_glue", S, "harness_ecdh", unwind=380, timeout=900, desc="secp256k1_ecdh: failure set, s*P hand-over with invalid-scalar masking, callback arguments, default hash layout SHA256((2|parity)||x)"),
    Query("xdh_glue", S, "harness_xdh", unwind=380, timeout=900, desc="ellswift_xdh: role selects the peer encoding, x-only ladder hand-over, hasher selection (custom / BIP-324 / prefix) and byte layouts, failure set"),
]
LEVEL_TEXT = ("Bounded model checking of the real ECDH / ElligatorSwift-XDH entry points at real width: exact failure sets, what is handed to the curve layer, party-role handling and the byte layout of all built-in hashers "
              "(uninterpreted compression, own padding reference).")
ASSUMPTIONS = ["NOT covered (not encodable here): the ElligatorSwift forward map, its eight inverse branches and the encode search loop (rational-function algebra over F_p); ellswift_decode/encode/create round trips",
               "party agreement ecdh(a,bG)==ecdh(b,aG) rests on the group law", "x-only ladder and swiftec fraction are opaque recorded functions", "BIP-324 tag midstate compared to from-scratch tagging in C05"]
MANIFEST_ENTRY = {
    "text": "Bounded model checking of the real ECDH and ellswift_xdh entry points at real width: fail exactly for secret 0/>=n or failing hash callback, hand s*PeerPoint (masked dummy scalar) to the curve layer, pass normalised coordinates to the hasher, default/BIP-324/prefix hash byte layouts equal the reference, and the party flag selects the other side's encoding while hashers always see (ell_a, ell_b).",
    "note": "NOT covered and not encodable with this technique here: the ElligatorSwift map/inverse/encode algebra and decode(encode(P)) == P (main clause of the property's second sentence); party agreement rests on the group law. Trusted: CBMC/kissat, stubs, reference padding model.",
}
