from engine import Query
S = "C19/h_c19.c"
QUERIES = [
    Query("norm_verify_sizes", S, "harness_verify_sizes", defs=["EARLY"], unwind=2, unwindset=["secp256k1_clz64_var.0:66", "memcmp.0:40"], timeout=600,
          desc="norm_product_verify: zero lengths, generator-count mismatch, proof_len != 65*rounds+64 (shorter or longer), non-power-of-two sizes rejected for ALL size_t values without touching proof or scratch",
          bounds="all size_t (g_len, c_len, proof_len, generator count)"),
    Query("point_pair_codec", S, "harness_point_pair", defs=["POINTS"], unwind=66, timeout=600, desc="two-points-in-65-bytes parser: sign byte > 3 and infinity-with-sign-bit rejected, for all 65-byte strings and both positions"),
]
for gl, cl, tier in ((1, 1, "quick"), (2, 1, "thorough"), (1, 2, "thorough")):
    QUERIES.append(Query("norm_verify_g%d_h%d" % (gl, cl), S, "harness_verify_small", defs=["SMALL", "GL=%d" % gl, "CL=%d" % cl], unwind=66, timeout=1200, mem_gb=10, tier=tier,
                         flags=["--max-field-sensitivity-array-size", "5000"],
                         desc="norm_product_verify with vector lengths (%d,%d): n,l >= order and rho == 0 rejected; insufficient scratch fails closed; scratch checkpoint restored on every path; all proof bytes, any scratch size" % (gl, cl),
                         bounds="g_len=%d, c_vec_len=%d assigned; scratch empty, capacity symbolic (<= 4096)" % (gl, cl)))
for ng in (0, 1, 2):
    QUERIES.append(Query("gens_parse_n%d" % ng, S, "harness_gens_parse", defs=["GENS", "NG=%d" % ng], unwind=8, timeout=600, flags=["--malloc-may-fail", "--malloc-fail-null", "--memory-leak-check"],
                         desc="bppp_generators_parse with %d entries (+ optional stray byte): length rule, whole-list rejection on any bad point, no leak on any path with malloc allowed to fail" % ng))
LEVEL_TEXT = ("Bounded model checking of the real Bulletproofs++ verifier front end and generator-list parser: full-range size logic, scalar/rho checks, scratch fail-closed behaviour with the real scratch allocator, point-pair codec, and leak freedom "
              "(CBMC memory-leak check with failing malloc).")
ASSUMPTIONS = ["the final multi-exponentiation equation and prove=>verify completeness are not covered (ecmult_multi_var opaque)", "generators_create determinism/prefix consistency not covered", "vector-length classes (1,1),(2,1),(1,2),(4,2)",
               "curve, scalar products and SHA API opaque"]
MANIFEST_ENTRY = {
    "text": "Bounded model checking of the real BP++ norm-argument verifier front end: all size rejections of the statement for ALL size_t values (incl. proof_len != 65*rounds+64 in both directions), n/l >= order and rho == 0 rejected, insufficient scratch fails closed and the scratch checkpoint is restored on every path (real scratch allocator, symbolic size), point-pair codec rejections, and generator-list parsing: length rule, whole-list rejection, no memory leak on any path with malloc allowed to fail.",
    "note": "Not covered: the verification equation / prover completeness (multi-exponentiation opaque), generator derivation determinism and prefix-consistency, serialize round trip. Vector-length classes up to (4,2). Trusted: CBMC/kissat incl. its malloc/leak model, stubs.",
}
