import os, re, subprocess, json
from engine import Query, REPO, VERIF, include_args, run
S = "C20/h_c20.c"
EXCL = ["--nondet-static-exclude", "secp256k1_selftest_sha256::1::input63"]
def q2(name, fn, desc, **kw):
    # --nondet-static: every mutable static-lifetime object starts with ARBITRARY contents (const tables keep their initialisers)
    return Query(name, S, fn, unwind=kw.pop("unwind", 140), timeout=kw.pop("timeout", 1500), mem_gb=kw.pop("mem_gb", 8), desc=desc,
                 instrument=[["--nondet-static"]], **kw)
QUERIES = [
    q2("two_ctx_ecdsa_sign_nd0", "harness_ecdsa_sign", "ecdsa_sign (default RFC 6979 nonce, extra data present): same signature bytes and return value under two arbitrary contexts, arbitrary statics", defs=["NDATA_NULL=0"], unwindset=["secp256k1_ecdsa_sign_inner.0:3", "nonce_function_rfc6979_impl.0:3"], bounds="first nonce attempt (compression-call cap 24 per run)", mem_gb=24, timeout=2400),
    q2("two_ctx_ecdsa_sign_nd1", "harness_ecdsa_sign", "ecdsa_sign (default RFC 6979 nonce, no extra data): same signature bytes and return value", defs=["NDATA_NULL=1"], unwindset=["secp256k1_ecdsa_sign_inner.0:3", "nonce_function_rfc6979_impl.0:3"], bounds="first nonce attempt (compression-call cap 24 per run)", mem_gb=24, timeout=2400),
    q2("two_ctx_ecdsa_verify", "harness_ecdsa_verify", "ecdsa_verify: same verdict under two arbitrary contexts"),
    q2("two_ctx_schnorr_sign", "harness_schnorr_sign", "schnorrsig_sign32 (aux NULL / present): same bytes"),
    q2("two_ctx_schnorr_verify", "harness_schnorr_verify", "schnorrsig_verify: same verdict"),
    q2("two_ctx_keygen", "harness_keygen", "ec_pubkey_create / keypair_create: same objects"),
    q2("two_ctx_tweaks", "harness_tweaks", "pubkey_tweak_add / tweak_mul / seckey_tweak_add: same outputs"),
    q2("two_ctx_ecdh", "harness_ecdh", "ecdh (default hash): same shared secret"),
    q2("two_ctx_der_serialize", "harness_der_serialize", "DER serialize: same bytes/length, no dependence on initial contents of any static (scratch arrays made static would be read before written)"),
    q2("two_ctx_der_parse", "harness_der_parse", "DER parse (inputs up to 24 bytes): same object", bounds="input length <= 24"),
    q2("two_ctx_pubkey_serialize", "harness_pubkey_serialize", "pubkey serialize (33/65): same bytes"),
    q2("two_ctx_pedersen", "harness_pedersen", "pedersen_commit: same commitment"),
    q2("two_ctx_musig_partial_sign", "harness_musig_sign", "musig_partial_sign: same partial signature"),
    q2("static_ctx", "harness_static_ctx", "static-context copies: verify gives the same result; key generation / signing / randomize report exactly one illegal callback and fail"),
    Query("blind_step", S, "harness_blind_step", defs=["C20_BLIND"], unwind=140, timeout=1500, mem_gb=8,
          desc="blinding invariant, one inductive step: secp256k1_ecmult_gen_blind from an ARBITRARY context state and seed (or NULL) leaves (scalar_offset, ge_offset) = (diff - b, b*G) with b != 0 computed under the previous pair, non-zero projective factor; diff constant checked against (2^258-1)/2 mod n",
          bounds="all context states, all seeds; histories of any length by induction"),
]


QUERIES.append(Query("ctx_lifecycle", S, "harness_lifecycle", defs=["C20_LIFE"], unwind=140, timeout=1500, mem_gb=8, flags=["--memory-leak-check"],
                     desc="context life cycle: create = exactly one allocation, preallocated create = same state without allocating, randomize (seed / NULL), clone / preallocated clone = identical state, randomize(NULL) = fresh state, destroy releases everything (leak check)",
                     bounds="one sequence create -> prealloc create -> randomize -> clone -> prealloc clone -> reset -> destroy; any seed"))


QUERIES.append(Query("set_compression", S, "harness_set_compression", defs=["C20_SETSHA"], unwind=140, timeout=900, mem_gb=6,
                     desc="context_set_sha256_compression: installed only after the self test accepts the candidate, refused (illegal callback, context unchanged) otherwise and on static-context copies, NULL resets to the built-in function, nothing else in the context changes",
                     bounds="self-test verdict arbitrary"))


def _statics(q, res):
    """side condition (symbol table, not a solver query): mutable static-lifetime objects of the library TU"""
    wd = os.path.join(os.environ.get("VERIF_SCRATCH", "/tmp"), "verif-statics-%d" % os.getpid())
    os.makedirs(wd, exist_ok=True)
    try:
        src = os.path.join(wd, "lib.c")
        open(src, "w").write('#include "cfg_full.h"\n#include "secp256k1.c"\n')
        gb = os.path.join(wd, "lib.gb")
        rc, o, _, _ = run(["goto-cc"] + include_args() + ["-c", src, "-o", gb], wd, 300)
        if rc != 0:
            res.reason = "goto-cc failed: " + o[-1000:]; return
        rc, o, _, _ = run(["goto-instrument", "--show-symbol-table", "--json-ui", gb], wd, 300, mem_gb=8)
        i = o.find("[")
        data = json.loads(o[i:])
        syms = None
        for e in data:
            if isinstance(e, dict) and "symbolTable" in e:
                syms = e["symbolTable"]
        if syms is None:
            res.reason = "no symbol table"; return
        mut = []
        for name, sy in syms.items():
            if not sy.get("isStaticLifetime") or sy.get("isType") or sy.get("isMacro") or name.startswith("__CPROVER") or sy.get("isExtern"):
                continue
            t = sy.get("type", {})
            if t.get("id") == "code":
                continue
            loc = json.dumps(sy.get("location", {}))
            if REPO not in loc and "/src/" not in loc:
                continue
            def is_const(ty):
                ns = ty.get("namedSub", {})
                if ns.get("#constant", {}).get("id") == "1":
                    return True
                if ty.get("id") == "array" and ty.get("sub"):
                    return is_const(ty["sub"][0])
                return False
            if not is_const(t):
                mut.append(name)
        mut = sorted(mut)
        allowed = ["secp256k1_selftest_sha256::1::input63"]   # a never-assigned pointer to a string literal (checked below)
        src_all = open(os.path.join(REPO, "src", "selftest.h")).read()
        never_assigned = len(re.findall(r"\binput63\s*=[^=]", src_all)) == 1
        extra = [m for m in mut if m not in allowed]
        res.extra = {"obligations": 1, "discharged": int(not extra and never_assigned),
                     "samples": ["mutable static-lifetime objects in the library TU: %s (allowed: never-assigned string pointer input63)" % mut]}
        if extra or not never_assigned:
            res.status = "VIOLATION"
            res.violations = [("statics", "library TU has mutable static-lifetime objects: %s" % extra)]
        else:
            res.status = "PASS"
    finally:
        import shutil
        shutil.rmtree(wd, ignore_errors=True)


QUERIES.append(Query("no_mutable_statics", "", "", kind="py", pyfunc=_statics, desc="side condition from the goto symbol table: the library TU defines no mutable static-lifetime object (apart from one never-assigned string pointer)"))
for qq in QUERIES:
    if qq.instrument:
        qq.instrument = [["--nondet-static"] + EXCL]
    if qq.kind == "cbmc":
        qq.unreachable = ["secp256k1_ecmult_strauss_batch", "secp256k1_ecmult_pippenger_batch"]   # 8-argument functions CBMC lists as candidates for nonce function pointers
LEVEL_TEXT = ("2-safety model checking of the real API code: every family is symbolically executed twice on the same arguments with two independent arbitrary contexts and arbitrary initial contents of all mutable statics; "
              "return values, output bytes and callback counts are proved equal and the context objects unchanged; the blinding invariant is proved inductive (one step of ecmult_gen_blind from an arbitrary state).")
ASSUMPTIONS = ["multiplicative kernels and SHA-256 compression are uninterpreted FUNCTIONS of their operand values; gn*G is a function of gn only -- i.e. ecmult_gen is correct under the blinding invariant, which blind_step proves inductive and whose use inside ecmult_gen is the group law (C05, not encodable)",
               "thread schedules are NOT explored (CBMC refuses this code in concurrency mode); decided instead: const-context API calls leave the context byte-identical, write only through their output arguments and depend on no mutable static -- the standard sufficient condition for race freedom on a shared context",
               "ecdsa_sign: first RFC 6979 attempt only", "objects hold canonical coordinates", "64-bit limbs only; malloc count / create-clone-destroy sequences are covered by the ctx_lifecycle query only as far as listed there"]
MANIFEST_ENTRY = {
    "text": "2-safety bounded model checking of the real code (CBMC): ECDSA/Schnorr sign+verify, key generation, tweaks, ECDH, DER/pubkey codecs, Pedersen commit and MuSig partial_sign are each executed twice on the same arguments under two independent ARBITRARY contexts (blinding state, callback data, declassify flag, replaced-but-correct compression function) with goto-instrument --nondet-static making every mutable static start arbitrary: outputs/return values/callback counts equal, contexts unchanged; static-context behaviour; inductive step for the blinding invariant of ecmult_gen_blind for all states and seeds.",
    "note": "Thread interleavings are not explored (tool refuses; replaced by the sufficient condition: read-only contexts + no mutable statics + output-only writes). gn*G independent of the blinding state is assumed in the 2-run queries and justified by blind_step + the group law (C05, not encodable). the create/clone/randomize/destroy query covers one representative sequence. First RFC 6979 attempt only.",
}
