#!/bin/bash
# offline setup: nothing to build -- every check regenerates its encoding from /repo at run time.
set -e
cd "$(dirname "$0")"
for t in cbmc goto-cc goto-instrument kissat z3 clang-14 gcc python3; do command -v $t >/dev/null || { echo "missing tool: $t"; exit 1; }; done
mkdir -p evidence replay
echo "setup ok"
