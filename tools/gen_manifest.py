#!/usr/bin/env python3
"""Regenerates /verif/MANIFEST.json from props/*.py (MANIFEST_ENTRY dict in each) -- keeps the manifest valid at all times."""
import importlib.util, json, os, sys
HERE = os.path.dirname(os.path.dirname(os.path.abspath(__file__)))
sys.path.insert(0, os.path.join(HERE, "lib"))
props = [json.loads(l)["id"] for l in open(os.path.join(HERE, "properties.jsonl"))]
checks, na = [], []
for pid in props:
    p = os.path.join(HERE, "props", pid + ".py")
    entry = None
    if os.path.exists(p):
        spec = importlib.util.spec_from_file_location("prop_" + pid, p)
        m = importlib.util.module_from_spec(spec); spec.loader.exec_module(m)
        entry = getattr(m, "MANIFEST_ENTRY", None)
    if entry is None:
        na.append({"property_id": pid, "reason": "no sound solver-based check built yet in this tree (planned: DESIGN.md section 3); not claimed"})
        continue
    checks.append({
        "property_id": pid,
        "quick_cmd": "./check %s --tier quick" % pid,
        "thorough_cmd": "./check %s --tier thorough" % pid,
        "evidence_file": "/verif/evidence/%s.json" % pid,
        "replay_cmd_template": "./check %s --replay {path}" % pid,
        "engine": "cbmc+z3",
        "level_claimed": {"category": "model_checking", "text": entry["text"], "design_ref": entry.get("design_ref", "DESIGN.md section 3, " + pid)},
        "level_note": entry["note"],
        "technique": entry.get("technique", "bounded symbolic execution of the real C translation unit (CBMC 6.11, SAT back end kissat), multiplicative kernels abstracted by over-approximating stubs"),
    })
man = {
    "version": 1,
    "setup_cmd": "./setup.sh",
    "hooks": {"guard": "SECP256K1_ZKP_VERIF", "enable": "no hooks: harness TUs #include /repo/src/secp256k1.c and redirect calls with goto-instrument --replace-calls; the guard name is reserved, no source commit uses it",
              "baseline_off_cmd": "cmake --build /repo/_build && ctest --test-dir /repo/_build -j8 --timeout 900", "source_commits": [], "add_only": True},
    "engines": [
        {"name": "cbmc+z3", "path": "/verif/check", "serves_properties": [c["property_id"] for c in checks],
         "kind_free_text": "python driver: goto-cc of harness TU including /repo/src/secp256k1.c -> goto-instrument stubs -> cbmc (kissat) ; engine K: clang -O1 LLVM IR -> z3 integer encoding"}],
    "checks": checks,
    "notes": "All checks rebuild their encodings from /repo's working tree on every run (set VERIF_REPO to point them at another tree). Exit 0 held / 1 VIOLATION / 2 broken-or-inconclusive (never reported as success). See DESIGN.md.",
    "not_applicable": na,
}
json.dump(man, open(os.path.join(HERE, "MANIFEST.json"), "w"), indent=1)
print("claimed:", [c["property_id"] for c in checks], "n/a:", [x["property_id"] for x in na])
