#!/bin/bash
# kill every running ./check driver and its cbmc/kissat children (development aid)
for p in $(pgrep -x python3); do
  if tr '\0' ' ' < /proc/$p/cmdline 2>/dev/null | grep -q "check C"; then kill -9 $p; fi
done
for p in $(pgrep -x cbmc) $(pgrep -x kissat); do kill -9 $p 2>/dev/null; done
sleep 1; rm -rf /tmp/verif-*
echo "left: $(pgrep -x cbmc | wc -l) cbmc"
