#!/usr/bin/env python3
"""tools/mkmut.py <name> <file relative to repo> <old> <new>  -> mutants/<name>.diff (built in a scratch worktree, which is removed)"""
import subprocess, sys, os, shutil
name, f, old, new = sys.argv[1:5]
wt = "/tmp/mw/mk-%d" % os.getpid()
os.makedirs("/tmp/mw", exist_ok=True)
subprocess.run(["git", "-C", "/repo", "worktree", "add", "--detach", wt], check=True, capture_output=True)
try:
    p = os.path.join(wt, f); s = open(p).read()
    assert s.count(old) == 1, "old text occurs %d times" % s.count(old)
    open(p, "w").write(s.replace(old, new))
    d = subprocess.run(["git", "-C", wt, "diff"], capture_output=True, text=True).stdout
    open("/verif/mutants/%s.diff" % name, "w").write(d)
    print("wrote mutants/%s.diff (%d lines)" % (name, len(d.splitlines())))
finally:
    subprocess.run(["git", "-C", "/repo", "worktree", "remove", "--force", wt], capture_output=True)
