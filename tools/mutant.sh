#!/bin/bash
# tools/mutant.sh <patch> <Cxx> [check args...]: run a check against a scratch worktree of /repo with <patch> applied.
# Expects exit 1 + VIOLATION. The worktree is removed afterwards.  (development aid, not a registered check)
set -u
patch=$(readlink -f "$1"); prop=$2; shift 2
wt=/tmp/mw/$(basename "$patch" .diff)-$$
mkdir -p /tmp/mw
git -C /repo worktree add --detach "$wt" >/dev/null 2>&1 || { echo "worktree failed"; exit 3; }
trap 'git -C /repo worktree remove --force "$wt" >/dev/null 2>&1' EXIT
git -C "$wt" apply "$patch" || { echo "patch does not apply"; exit 3; }
cd /verif
VERIF_REPO="$wt" VERIF_EVIDENCE_DIR=/tmp/mw/ev-$$ ./check "$prop" "$@"
rc=$?
rm -rf /tmp/mw/ev-$$
echo "mutant $(basename "$patch") on $prop: exit $rc"
exit $rc
