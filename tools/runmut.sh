#!/bin/bash
# tools/runmut.sh <mutant-name> <Cxx> <--only filter>: summary line
out=$(tools/mutant.sh mutants/$1.diff $2 ${3:+--only $3} 2>&1)
echo "$1 -> $(echo "$out" | grep -a "^VIOLATION\|^BROKEN\|^mutant" | cut -c1-160 | tr '\n' ' ')"
