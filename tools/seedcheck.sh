#!/bin/bash
# tools/seedcheck.sh <patch.diff> <PROP> [check args]  (development aid): run ./check PROP against a scratch worktree with the patch applied
patch=$(readlink -f "$1"); prop=$2; shift 2
wt=/tmp/mw/sc-$$; mkdir -p /tmp/mw
git -C /repo worktree add --detach "$wt" >/dev/null 2>&1 || { echo "worktree failed"; exit 3; }
trap 'git -C /repo worktree remove --force "$wt" >/dev/null 2>&1; rm -rf /tmp/mw/ev-$$' EXIT
git -C "$wt" apply "$patch" || { echo "patch does not apply"; exit 3; }
cd /verif
VERIF_REPO="$wt" VERIF_EVIDENCE_DIR=/tmp/mw/ev-$$ ./check "$prop" "$@" 2>&1 | grep -a "^VIOLATION\|^BROKEN\|^KNOWN\|violated:\|tier=" | cut -c1-300
