#!/bin/bash
# tools/seedconfirm.sh <ID> <k>   (development aid)
# Confirms a sub-agent's seeded change /tmp/seed/<ID>/out/<k> in its scratch worktree /tmp/seed/<ID>/wt:
#   demo passes on the clean tree, patch applies, the full 317-test suite still passes, demo fails with the patch.
# Leaves the worktree clean.  Prints one summary line.
id=$1; k=$2; d=/tmp/seed/$id/out/$k; wt=/tmp/seed/$id/wt; log=/tmp/seedlogs/$id-$k.confirm.log
: > $log
git -C $wt checkout -- . >/dev/null 2>&1
[ -f $d/patch.diff ] || { echo "$id/$k: no patch.diff"; exit 1; }
( cd $d && timeout 900 bash ./demo.sh ) >>$log 2>&1; clean_rc=$?
git -C $wt apply $d/patch.diff >>$log 2>&1 || { echo "$id/$k: patch does not apply"; exit 1; }
/tmp/seed/build_and_test.sh $wt >>$log 2>&1
tests=$(grep -c "100% tests passed, 0 tests failed out of 317" $log)
( cd $d && timeout 900 bash ./demo.sh ) >>$log 2>&1; mut_rc=$?
git -C $wt checkout -- . >/dev/null 2>&1
echo "$id/$k: demo_clean_rc=$clean_rc tests_pass_with_patch=$tests demo_patched_rc=$mut_rc files=$(grep '^+++' $d/patch.diff | cut -c7- | tr '\n' ' ')"
